"""C09 - restarts and step-size control keep their promises (structural clauses)."""

import ast
import re

from ..cfg import FuncCFG, walk_no_nested
from ..model import AnalysisError, ClassInfo
from ..norm import Normalizer, bool_nf, nnf
from ..runner import rule
from .. import controllers as ct
from .. import facts
from .. import setups

CC = 'pySDC/implementations/convergence_controller_classes/'
BR = CC + 'basic_restarting.py'
AD = CC + 'adaptivity.py'
LIM = CC + 'step_size_limiter.py'
SP = CC + 'spread_step_sizes.py'


def _name(x):
    return (x.cls.name + '.' if x.cls else '') + x.fn.name


WRITERS = {
    'restart': {
        'AdaptivityBase.determine_restart', 'AdaptivityForConvergedCollocationProblems.determine_restart', 'AdaptivityCollocation.determine_restart',
        'AdaptivityForConvergedCollocationProblems.trigger_restart_upon_nonconvergence', 'BasicRestartingNonMPI.determine_restart',
        'BasicRestartingMPI.determine_restart', 'HotRod.determine_restart',
    },
    'dt_new': {
        'Adaptivity.get_new_step_size', 'AdaptivityRK.get_new_step_size', 'AdaptivityResidual.get_new_step_size', 'AdaptivityCollocation.get_new_step_size',
        'AdaptivityExtrapolationWithinQ.get_new_step_size', 'AdaptivityPolynomialError.get_new_step_size',
        'AdaptivityForConvergedCollocationProblems.trigger_restart_upon_nonconvergence', 'StepSizeLimiter.get_new_step_size',
        'StepSizeSlopeLimiter.get_new_step_size', 'StepSizeRounding.get_new_step_size',
    },
    'dt': {'SpreadStepSizesBlockwiseNonMPI.prepare_next_block', 'SpreadStepSizesBlockwiseMPI.prepare_next_block'},
    'restarts_in_a_row': {'BasicRestartingNonMPI.prepare_next_block', 'BasicRestartingMPI.prepare_next_block'},
}
WRITER_EXC = {('dt_new', 'CFLLimit.get_new_step_size'): 'problem-specific CFL limiter shipped with RayleighBenard (a get_new_step_size controller like the limiters)'}


@rule('C09', 'C09.R1', 'who may write status.restart, status.dt_new, params.dt, restarts_in_a_row (table B1)', floor=33)
def r1(ctx, R):
    repo = ctx.repo
    W = ctx.memo('attr_writes', lambda: facts.attr_writes(repo))
    seen = {k: set() for k in WRITERS}
    for x in W:
        if x.attr not in WRITERS:
            continue
        if x.attr == 'dt':
            if not x.receiver.endswith('.params') or 'level' not in x.receiver.lower() and not re.search(r'(^|\.)(L|lvl|l)\.params$', x.receiver):
                continue
        elif x.attr == 'restart':
            if not x.receiver.endswith('.status'):
                continue
        elif not x.receiver.endswith('.status'):
            continue
        if x.cls is not None and x.cls.name in ('_Status', 'Status') and x.fn.name == '__init__':
            continue
        nm = _name(x)
        c = f'{nm} :: {x.target} {x.op} {x.rhs()[:60]}'
        if nm in WRITERS[x.attr]:
            seen[x.attr].add(nm)
            R.ok(c, x.qual, found='sanctioned writer')
        elif (x.attr, nm) in WRITER_EXC:
            R.exc(c, x.qual, WRITER_EXC[(x.attr, nm)])
        else:
            R.bad(c, x.qual, f'{x.attr} is written only by {sorted(WRITERS[x.attr])}', f'new writer {nm}')
    for k, names in WRITERS.items():
        missing = names - seen[k]
        if missing:
            raise AnalysisError(f'C09.R1: tabled writers of {k} not found any more: {sorted(missing)}')


@rule('C09', 'C09.R2', 'retry bound: max_restart_reached is restarts_in_a_row >= max_restarts; ConvergenceError under crash_after_max_restarts; restart conjoined with not max_restart_reached', floor=7)
def r2(ctx, R):
    repo = ctx.repo
    for cn in ('BasicRestartingNonMPI', 'BasicRestartingMPI'):
        fn = repo.func(BR, f'{cn}.determine_restart')
        w = f'{BR}:{cn}.determine_restart'
        R.fn(w)
        cfg = FuncCFG(fn)
        N = Normalizer(fn, inline_scalars=False)
        mr = [c for c in N.contribs if c.target == 'self.buffers.max_restart_reached' and c.guards == ['S.status.first']]
        ok = len(mr) == 1 and bool_nf(mr[0].stmt.value) == 'self.params.max_restarts <= S.status.restarts_in_a_row'
        R.check(ok, f'{cn}.determine_restart :: first step: max_restart_reached = restarts_in_a_row >= max_restarts', w, 'S.status.restarts_in_a_row >= self.params.max_restarts', [c.describe() for c in mr])
        # every comparison of the counter against the budget uses the same operator
        cmps = [x for x in walk_no_nested(fn) if isinstance(x, ast.Compare) and 'restarts_in_a_row' in ast.unparse(x) and 'max_restarts' in ast.unparse(x)]
        for i, x in enumerate(cmps):
            s = bool_nf(x)
            R.check(s == 'self.params.max_restarts <= S.status.restarts_in_a_row', f'{cn}.determine_restart :: comparison #{i} of the retry counter with the budget', w, 'restarts_in_a_row >= max_restarts (same operator at every site, as in the serial sibling)', ast.unparse(x))
        # crash under crash_after_max_restarts, in the arm where the bound holds and a restart is wanted
        if cn == 'BasicRestartingNonMPI':
            rs = [(n, s) for n, s in cfg.stmt_of.items() if isinstance(s, ast.Raise) and 'ConvergenceError' in ast.unparse(s)]
            g = facts.guard_strings(cfg, rs[0][1]) if rs else []
            ok = len(rs) == 1 and g == ['S.status.first', 'self.buffers.max_restart_reached and S.status.restart', 'self.params.crash_after_max_restarts']
            R.check(ok, f'{cn}.determine_restart :: ConvergenceError when the budget is exhausted, a restart is wanted and crash_after_max_restarts', w, 'raise under first & max_restart_reached & restart & crash_after_max_restarts', g)
        else:
            cn_ = [c for c in N.contribs if c.target == 'crash_now' and c.rhs == 'True']
            ok = len(cn_) == 1 and cn_[0].guards == ['S.status.first', 'self.buffers.max_restart_reached and S.status.restart', 'self.params.crash_after_max_restarts']
            rs = [(n, s) for n, s in cfg.stmt_of.items() if isinstance(s, ast.Raise) and 'ConvergenceError' in ast.unparse(s)]
            ok = ok and len(rs) == 1 and facts.guard_strings(cfg, rs[0][1])[-1:] == ['crash_now']
            R.check(ok, f'{cn}.determine_restart :: ConvergenceError (deferred until after the communication) under the same condition', w, 'crash_now = True under first & reached & restart & crash flag; raise if crash_now', [c.describe() for c in cn_])
        fin = [c for c in N.contribs if c.target == 'S.status.restart' and not any('restart_from_first_step' in g and 'not' not in g for g in c.guards)]
        ok = len(fin) >= 1 and all(isinstance(nnf(c.stmt.value), tuple) and nnf(c.stmt.value)[0] == 'and' and ('not', 'self.buffers.max_restart_reached') in nnf(c.stmt.value)[1] for c in fin)
        R.check(ok, f'{cn}.determine_restart :: the final restart flag is conjoined with not max_restart_reached (moving on)', w, 'S.status.restart = (...) and not max_restart_reached', [c.describe() for c in fin])


@rule('C09', 'C09.R3', 'restart propagates to all later steps in slot order; buffers reset after every IT_CHECK; restart_from_first_step copies on the last step', floor=6)
def r3(ctx, R):
    repo = ctx.repo
    fn = repo.func(BR, 'BasicRestartingNonMPI.determine_restart')
    w = f'{BR}:BasicRestartingNonMPI.determine_restart'
    R.fn(w)
    N = Normalizer(fn, inline_scalars=False)
    cfg = FuncCFG(fn)
    acc = [c for c in N.contribs if c.target == 'self.buffers.restart']
    ok = len(acc) == 1 and not acc[0].guards and bool_nf(acc[0].stmt.value) == ('or', ('S.status.restart', 'self.buffers.restart'))
    R.check(ok, 'BasicRestartingNonMPI :: buffers.restart accumulates with `or` over the steps, unconditionally', w, 'self.buffers.restart = S.status.restart or self.buffers.restart', [c.describe() for c in acc])
    fin = [c for c in N.contribs if c.target == 'S.status.restart']
    ok = len(fin) == 1 and acc and cfg.dominates(cfg.node_of[id(acc[0].stmt)], cfg.node_of[id(fin[0].stmt)]) and 'self.buffers.restart' in ast.unparse(fin[0].stmt.value)
    R.check(ok, 'BasicRestartingNonMPI :: a step restarts if it or any earlier step of the block wants to', w, 'S.status.restart = (S.status.restart or buffers.restart) and ..., after the accumulation', [c.describe() for c in fin])
    allst = [c for c in N.contribs if c.target == 'step.status.restart']
    ok = len(allst) == 1 and allst[0].rhs == 'self.buffers.restart' and nnf(ast.parse(allst[0].guards[0], mode='eval').body) == ('and', tuple(sorted(['S.status.last', 'self.params.restart_from_first_step', ('not', 'self.buffers.max_restart_reached')], key=repr))) and allst[0].loops and allst[0].loops[0].it == 'MS'
    R.check(ok, 'BasicRestartingNonMPI :: restart_from_first_step copies the accumulated flag to all steps, on the last step only', w, 'if last and restart_from_first_step and not reached: for step in MS: step.status.restart = buffers.restart', [c.describe() for c in allst])
    rb = repo.func(BR, 'BasicRestartingNonMPI.reset_buffers_nonMPI')
    Nb = Normalizer(rb, inline_scalars=False)
    got = {c.target: c.rhs for c in Nb.contribs}
    R.check(got.get('self.buffers.restart') == 'False' and got.get('self.buffers.max_restart_reached') == 'False', 'BasicRestartingNonMPI.reset_buffers_nonMPI :: both buffers cleared', f'{BR}:BasicRestartingNonMPI.reset_buffers_nonMPI', 'restart = False; max_restart_reached = False', got)
    for spec in (ct.NONMPI, ct.PARADIAG):
        _, hs = ct.handler_table(repo, spec)
        h = hs['IT_CHECK']
        rbc = h.calls('reset_buffers_nonMPI')
        dec = h.calls('convergence_control')
        hdr = None
        if rbc:
            lp = h.cfg.loops_of[id(h.cfg.stmt_of[rbc[0][0]])]
            hdr = h.cfg.node_of[id(lp[0])] if lp else rbc[0][0]
        ok = len(rbc) == 1 and len(dec) == 1 and h.cfg.dominates(hdr, 'EXIT') and not h.cfg.reachable(hdr, dec[0][0]) and (not lp or ast.unparse(lp[0].iter).startswith('[self.convergence_controllers[i]'))
        R.check(ok, f'{spec[1]}.it_check :: buffers are reset at the end of every IT_CHECK, after all steps decided', h.where, 'C.reset_buffers_nonMPI(self) on every path to exit, after the decision loop', f'{len(rbc)} reset site(s)')


@rule('C09', 'C09.R4', 'retry counter: old+1 if restart else 0, re-mapped to the slot the step will occupy', floor=5)
def r4(ctx, R):
    repo = ctx.repo
    fn = repo.func(BR, 'BasicRestartingNonMPI.prepare_next_block')
    w = f'{BR}:BasicRestartingNonMPI.prepare_next_block'
    R.fn(w)
    N = Normalizer(fn, inline_scalars=False)
    N2 = Normalizer(fn)
    rf = [c for c in N.contribs if c.target == 'restart_from']
    ok = len(rf) == 1 and rf[0].rhs == 'min([me.status.slot for me in MS if me.status.restart] + [size - 1])'
    R.check(ok, 'BasicRestartingNonMPI.prepare_next_block :: restart_from is the smallest restarting slot (or the last slot)', w, 'min([slots that restart] + [size - 1])', [c.describe() for c in rf])
    def idx(t):
        m = re.fullmatch(r'MS\[(.+)\]\.status\.restarts_in_a_row', t)
        return str(N2.affine(ast.parse(m.group(1), mode='eval').body)) if m else t
    cnt = [c for c in N2.contribs if c.target.endswith('.status.restarts_in_a_row')]
    carry = [c for c in cnt if idx(c.target) == 'S.status.slot-restart_from']
    ok = len(carry) == 1 and carry[0].rhs == 'S.status.restarts_in_a_row + 1 if S.status.restart else 0' and carry[0].guards[-1:] == ['S.status.slot >= restart_from']
    R.check(ok, 'BasicRestartingNonMPI.prepare_next_block :: counter = old + 1 if restarted else 0, stored at the slot the step moves to', w, 'MS[slot - restart_from].restarts_in_a_row = old + 1 if restart else 0, for slot >= restart_from', [c.describe()[:140] for c in carry])
    # order hazard: the method is called once per step in slot order and READS S.status.restarts_in_a_row; a store into the
    # status of a step with a HIGHER slot than the caller's is seen by that step's own (later) call
    reads_own = 'S.status.restarts_in_a_row' in ast.unparse(fn)
    for c in cnt:
        m = re.fullmatch(r'MS\[(.+)\]\.status\.restarts_in_a_row', c.target)
        if not m:
            continue
        a = N2.affine(ast.parse(m.group(1), mode='eval').body)
        d = a - N2.affine(ast.parse('S.status.slot', mode='eval').body)
        may_exceed = a is None or any(v > 0 for k, v in d.coeffs.items()) or d.const > 0
        R.check(not (reads_own and may_exceed), f'BasicRestartingNonMPI.prepare_next_block :: store into MS[{a}] is not read by a later per-step call', w, 'index <= own slot (the destination slot - restart_from), or a snapshot of the counters taken before the loop', f'MS[{a}] with slot-relative offset {d}: can be a later step whose own call then reads the overwritten counter')
    fn = repo.func(BR, 'BasicRestartingMPI.prepare_next_block')
    w = f'{BR}:BasicRestartingMPI.prepare_next_block'
    R.fn(w)
    N = Normalizer(fn, inline_scalars=False)
    snd = [c for c in N.contribs if c.target == 'buff[0]']
    ok = len(snd) == 1 and snd[0].rhs == 'int(S.status.restarts_in_a_row + 1 if S.status.restart else 0)' and snd[0].guards == ['S.status.slot >= restart_from']
    R.check(ok, 'BasicRestartingMPI.prepare_next_block :: sends old + 1 if restarted else 0 from the restarting slots', w, 'buff[0] = int(restarts_in_a_row + 1 if restart else 0) if slot >= restart_from', [c.describe() for c in snd])
    calls = {c[0].split('(')[0]: c for c in N.calls}
    s_kw = {k.arg: ast.unparse(k.value) for k in calls['self.Send'][4].keywords} if 'self.Send' in calls else {}
    r_kw = {k.arg: ast.unparse(k.value) for k in calls['self.Recv'][4].keywords} if 'self.Recv' in calls else {}
    ok = s_kw.get('dest') == 'S.status.slot - restart_from' and r_kw.get('source') == 'S.status.slot + restart_from'
    R.check(ok, 'BasicRestartingMPI.prepare_next_block :: sender slot - restart_from pairs with receiver slot + restart_from', w, 'dest = slot - restart_from ; source = slot + restart_from', {'dest': s_kw.get('dest'), 'source': r_kw.get('source')})


@rule('C09', 'C09.R5', 'one step size per block: params.dt is set on all levels of every step from a single step of the block', floor=4)
def r5(ctx, R):
    repo = ctx.repo
    for cn in ('SpreadStepSizesBlockwiseNonMPI', 'SpreadStepSizesBlockwiseMPI'):
        fn = repo.func(SP, f'{cn}.prepare_next_block')
        w = f'{SP}:{cn}.prepare_next_block'
        R.fn(w)
        N = Normalizer(fn, inline_scalars=False)
        st = [c for c in N.contribs if re.fullmatch(r'S\.levels\[.+\]\.params\.dt', c.target)]
        ok = len(st) == 1 and st[0].loops and st[0].loops[-1].kind == 'range' and str(st[0].loops[-1].hi) == 'len(S.levels)' and re.fullmatch(r'new_steps\[i1 - 1\]', st[0].rhs or '') and not [g for g in st[0].guards if 'MS' not in g]
        R.check(ok, f'{cn}.prepare_next_block :: every level of the step gets the spread step size', w, 'for i in range(len(S.levels)): S.levels[i].params.dt = new_steps[i]', [c.describe() for c in st])
        src = [c for c in N.contribs if c.target.startswith('new_steps[') and c.rhs and c.rhs.startswith('min(')]
        if cn.endswith('NonMPI'):
            ok = len(src) == 1 and src[0].rhs.startswith('min([MS[spread_from_step].levels[i1 - 1].status.dt_new if MS[spread_from_step].levels[i1 - 1].status.dt_new is not None else MS[spread_from_step].levels[i1 - 1].params.dt,')
        else:
            ok = len(src) == 1 and src[0].guards and src[0].guards[0] == 'S.status.slot == spread_from_step' and any(c[0] == 'comm.bcast(new_steps, root=spread_from_step)' for c in N.calls)
        R.check(ok, f'{cn}.prepare_next_block :: the value comes from ONE step of the block (spread_from_step)', w, 'levels of MS[spread_from_step] / bcast(root=spread_from_step)', [c.describe()[:160] for c in src])
    for spec in (ct.NONMPI, ct.PARADIAG):
        fn = repo.func(spec[0], f'{spec[1]}.run')
        calls = [c for c in ast.walk(fn) if isinstance(c, ast.Call) and isinstance(c.func, ast.Attribute) and c.func.attr == 'prepare_next_block']
        ok = False
        for lc in ast.walk(fn):
            if isinstance(lc, ast.ListComp) and calls and calls[0] in list(ast.walk(lc)):
                ok = ast.unparse(lc.generators[0].iter) == 'self.MS'
        R.check(ok, f'{spec[1]}.run :: prepare_next_block is called for every step of the controller', f'{spec[0]}:{spec[1]}.run', '[C.prepare_next_block(...) for S in self.MS]', [ast.unparse(c)[:80] for c in calls])


@rule('C09', 'C09.R6', 'dt formula: beta * dt * (e_tol / e_est) ** (1/order), used by every estimate-based get_new_step_size with beta, the level dt and e_tol', floor=11)
def r6(ctx, R):
    repo = ctx.repo
    fn = repo.func(AD, 'AdaptivityBase.compute_optimal_step_size')
    w = f'{AD}:AdaptivityBase.compute_optimal_step_size'
    R.fn(w)
    ret = [s for s in walk_no_nested(fn) if isinstance(s, ast.Return)]
    names = [a.arg for a in fn.args.args[1:]]
    ok = len(ret) == 1 and len(names) == 5
    if ok:
        beta, dt, tol, est, order = names
        N = Normalizer(fn)
        t = N.terms(ret[0].value)
        ok = len(t) == 1 and t[0][0] == 1 and len(t[0][1]) == 3 and beta in t[0][1] and dt in t[0][1]
        pw = [f for f in t[0][1] if f not in (beta, dt)] if ok else []
        if ok:
            p = ast.parse(pw[0], mode='eval').body
            ok = isinstance(p, ast.BinOp) and isinstance(p.op, ast.Pow) and ast.unparse(p.left) == f'{tol} / {est}' and ast.unparse(p.right) in (f'1.0 / {order}', f'1 / {order}')
    R.check(ok, 'compute_optimal_step_size :: beta * dt * (e_tol / e_est) ** (1 / order)', w, 'product of beta, dt and (e_tol/e_est)^(1/order)', ast.unparse(ret[0].value) if ret else None)
    base = repo.cls(AD, 'AdaptivityBase')
    for ci in repo.subclasses(base):
        if 'get_new_step_size' not in ci.methods or not repo.is_library(ci):
            continue
        g = ci.methods['get_new_step_size']
        N = Normalizer(g, inline_scalars=False)
        w = f'{ci.module.relpath}:{ci.name}.get_new_step_size'
        cs = [c for c in N.contribs if c.target.endswith('.status.dt_new')]
        use = [c for c in cs if c.call and c.call[0] == 'self.compute_optimal_step_size']
        if not cs:
            continue
        R.fn(w)
        if not use:
            if ci.name == 'AdaptivityResidual':
                R.exc(f'{ci.name}.get_new_step_size :: residual-based halving/doubling', w, 'not an error-estimate controller: step size is halved/doubled on residual thresholds (documented), formula not applicable')
            elif ci.name == 'AdaptivityBase':
                continue
            else:
                R.bad(f'{ci.name}.get_new_step_size :: uses the common formula', w, 'dt_new = self.compute_optimal_step_size(beta, dt, e_tol, e_est, order)', [c.describe()[:100] for c in cs])
            continue
        a = use[0].call[1]
        lv = use[0].target[: -len('.status.dt_new')]
        ok = len(use) == 1 and len(a) == 5 and a[0] == 'self.params.beta' and a[1] == f'{lv}.params.dt' and a[2] == 'self.params.e_tol' and a[3] == 'self.get_local_error_estimate(controller, S)' or (len(a) == 5 and a[3] == 'e_est' and a[:3] == ['self.params.beta', f'{lv}.params.dt', 'self.params.e_tol'])
        if ok and a[3] == 'e_est':
            d = [c for c in N.contribs if c.target == 'e_est']
            ok = len(d) == 1 and d[0].rhs.startswith('self.get_local_error_estimate(controller, S')
        R.check(ok, f'{ci.name}.get_new_step_size :: dt_new = compute_optimal_step_size(beta, level dt, e_tol, local error estimate, order)', w, 'beta <- params.beta, dt <- level params.dt, e_tol <- params.e_tol, e_est <- get_local_error_estimate', a)
        R.check(lv.endswith('S.levels[0]') or N.env.alias.get(lv) is not None and ast.unparse(N.env.alias[lv]) == 'S.levels[0]', f'{ci.name}.get_new_step_size :: proposal stored on the finest level', w, 'S.levels[0].status.dt_new', lv)


@rule('C09', 'C09.R7', 'restart test: at maxiter (or convergence) the step restarts iff the error estimate reaches/exceeds e_tol', floor=3)
def r7(ctx, R):
    repo = ctx.repo
    fn = repo.func(AD, 'AdaptivityBase.determine_restart')
    w = f'{AD}:AdaptivityBase.determine_restart'
    R.fn(w)
    cfg = FuncCFG(fn)
    sets = [s for s in cfg.stmt_of.values() if isinstance(s, ast.Assign) and ast.unparse(s.targets[0]) == 'S.status.restart']
    okall = bool(sets)
    for s in sets:
        g = facts.guard_strings(cfg, s)
        okall &= g[:2] == ['S.status.iter >= S.params.maxiter', 'e_est >= self.params.e_tol'] and ast.unparse(s.value) == 'True'
    plain = [s for s in sets if any(x.startswith("not (self.params.get('avoid_restarts'))") for x in facts.guard_strings(cfg, s))]
    okall &= len(plain) == 1
    ed = [s for s in cfg.stmt_of.values() if isinstance(s, ast.Assign) and ast.unparse(s.targets[0]) == 'e_est']
    okall &= len(ed) == 1 and ast.unparse(ed[0].value) == 'self.get_local_error_estimate(controller, S)'
    R.check(okall, 'AdaptivityBase.determine_restart :: at iter >= maxiter: restart = True iff e_est >= e_tol (unless avoid_restarts estimates otherwise)', w, 'guards [iter >= maxiter, e_est >= e_tol]; one unconditional arm when avoid_restarts is off', [facts.guard_strings(cfg, s) for s in sets])
    fc = [s for s in cfg.stmt_of.values() if isinstance(s, ast.Assign) and ast.unparse(s.targets[0]) == 'S.status.force_continue']
    ok = len(fc) == 1 and "self.params.get('avoid_restarts')" in facts.guard_strings(cfg, fc[0])
    R.check(ok, 'AdaptivityBase.determine_restart :: force_continue only under avoid_restarts', w, 'S.status.force_continue = True in the avoid_restarts arm', [facts.guard_strings(cfg, s) for s in fc])
    for cn, guard0 in (('AdaptivityCollocation', 'len(self.status.order) == self.params.num_colls'), ('AdaptivityForConvergedCollocationProblems', 'self.get_convergence(controller, S, **kwargs)')):
        fn = repo.func(AD, f'{cn}.determine_restart')
        w = f'{AD}:{cn}.determine_restart'
        R.fn(w)
        cfg = FuncCFG(fn)
        sets = [s for s in cfg.stmt_of.values() if isinstance(s, ast.Assign) and ast.unparse(s.targets[0]) == 'S.status.restart']
        ok = len(sets) == 1 and ast.unparse(sets[0].value) == 'True'
        if ok:
            g = facts.guard_strings(cfg, sets[0])
            cmp_ = [x for x in g if 'e_tol' in x and 'get_local_error_estimate' in x or re.fullmatch(r'e_est >=? self\.params\.e_tol', x)]
            ok = g[0] == guard0 and len(cmp_) == 1 and re.search(r'>=? self\.params\.e_tol$', cmp_[0]) is not None
        R.check(ok, f'{cn}.determine_restart :: restart iff the local error estimate reaches/exceeds e_tol once the step is converged', w, f'[{guard0}, estimate >(=) e_tol]', [facts.guard_strings(cfg, s) for s in sets])


@rule('C09', 'C09.R8', 'clamp idiom: the comparison direction and the bound written agree in every limiter', floor=4)
def r8(ctx, R):
    repo = ctx.repo
    fn = repo.func(LIM, 'StepSizeLimiter.get_new_step_size')
    w = f'{LIM}:StepSizeLimiter.get_new_step_size'
    R.fn(w)
    N = Normalizer(fn, inline_scalars=False)
    got = sorted((c.guards[-1], c.rhs) for c in N.contribs if c.target == 'L.status.dt_new')
    want = sorted([('L.status.dt_new < self.params.dt_min', 'self.params.dt_min'), ('L.status.dt_new >= self.params.dt_min and L.status.dt_new > self.params.dt_max', 'self.params.dt_max')])
    got2 = sorted((c.guards[-1].split(' and ')[-1] if ' and ' in c.guards[-1] else c.guards[-1], c.rhs) for c in N.contribs if c.target == 'L.status.dt_new')
    want2 = sorted([('L.status.dt_new < self.params.dt_min', 'self.params.dt_min'), ('L.status.dt_new > self.params.dt_max', 'self.params.dt_max')])
    R.check(got2 == want2, 'StepSizeLimiter :: below dt_min -> dt_min ; above dt_max -> dt_max', w, want2, got2)
    R.check(all('L.status.dt_new is not None' in c.guards for c in N.contribs if c.target == 'L.status.dt_new'), 'StepSizeLimiter :: only an existing proposal is limited', w, 'guard dt_new is not None', [c.guards for c in N.contribs if c.target == 'L.status.dt_new'])
    fn = repo.func(LIM, 'StepSizeSlopeLimiter.get_new_step_size')
    w = f'{LIM}:StepSizeSlopeLimiter.get_new_step_size'
    R.fn(w)
    N = Normalizer(fn)
    def val(c):
        if re.fullmatch(r'\w+', c.rhs or ''):
            d = [x for x in N.contribs if x.target == c.rhs and x.guards == c.guards]
            if len(d) == 1:
                return d[0].rhs
        return c.rhs
    got = sorted((c.guards[-1].split(' and ')[-1] if c.guards[-1].count(' and ') and 'abs(' not in c.guards[-1] else c.guards[-1], val(c)) for c in N.contribs if c.target == 'L.status.dt_new')
    want_pairs = [('L.status.dt_new / L.params.dt < self.params.dt_slope_min', 'L.params.dt * self.params.dt_slope_min'), ('L.status.dt_new / L.params.dt > self.params.dt_slope_max', 'L.params.dt * self.params.dt_slope_max')]
    ok = all(p in got for p in want_pairs) and len(got) == 3
    R.check(ok, 'StepSizeSlopeLimiter :: ratio below slope_min -> dt*slope_min ; above slope_max -> dt*slope_max', w, want_pairs, got)
    third = [c for c in N.contribs if c.target == 'L.status.dt_new' and c.rhs == 'L.params.dt']
    ok = len(third) == 1 and 'abs(L.status.dt_new / L.params.dt - 1) < self.params.dt_rel_min_slope' in third[0].guards[-1] and re.search(r'not S\.status\.restart(?![\w.])', third[0].guards[-1]) is not None
    R.check(ok, 'StepSizeSlopeLimiter :: insignificant changes keep dt, but never for a step that restarts', w, 'dt_new = dt if |ratio-1| < dt_rel_min_slope and not restart', [c.describe() for c in third])


@rule('C09', 'C09.R9', 'control-order partial order of the convergence controllers (effective defaults folded along the MRO)', floor=34)
def r9(ctx, R):
    repo = ctx.repo
    base = repo.cls('pySDC/core/convergence_controller.py', 'ConvergenceController')
    eff = {}
    for ci in repo.subclasses(base, strict=True):
        if not repo.is_library(ci):
            continue
        v, forced, origin, kind = setups.effective(setups.fold(repo, ci), 'control_order')
        if v is None:
            continue
        try:
            eff[ci.name] = int(ast.literal_eval(v))
        except Exception:
            raise AnalysisError(f'{ci.name}: default control_order {v!r} is not a literal')
    def lt(a, b, why):
        if a not in eff or b not in eff:
            raise AnalysisError(f'C09.R9: controller {a if a not in eff else b} vanished')
        R.check(eff[a] < eff[b], f'{a} ({eff[a]}) before {b} ({eff[b]})', f'{CC}', f'{why}', f'{eff[a]} !< {eff[b]}')
    for est in ('EstimateEmbeddedError', 'EstimateExtrapolationErrorNonMPI', 'EstimatePolynomialError', 'EstimateContractionFactor', 'EstimateExtrapolationErrorWithinQ'):
        for ad in ('Adaptivity', 'AdaptivityRK', 'AdaptivityPolynomialError', 'AdaptivityExtrapolationWithinQ'):
            lt(est, ad, 'the error estimate must exist before the step-size controller reads it')
    lt('EstimateEmbeddedError', 'StoreUOld', 'the embedded estimate reads uold before it is overwritten')
    for ad in ('Adaptivity', 'AdaptivityRK', 'AdaptivityResidual', 'AdaptivityPolynomialError', 'AdaptivityExtrapolationWithinQ', 'AdaptivityCollocation'):
        if ad != 'AdaptivityCollocation':
            lt(ad, 'StepSizeSlopeLimiter', 'limits are applied after the proposal')
    lt('StepSizeSlopeLimiter', 'StepSizeLimiter', 'absolute limits after slope limits')
    lt('StepSizeLimiter', 'StepSizeRounding', 'rounding after limiting')
    lt('StepSizeRounding', 'BasicRestartingNonMPI', 'restart decision after the step size is final')
    lt('BasicRestartingNonMPI', 'SpreadStepSizesBlockwiseNonMPI', 'spreading after the restart decision')
    lt('BasicRestartingMPI', 'SpreadStepSizesBlockwiseMPI', 'spreading after the restart decision')
    lt('SpreadStepSizesBlockwiseNonMPI', 'CheckConvergence', 'convergence check last among the standard controllers')
    lt('CheckConvergence', 'EstimateEmbeddedErrorCollocation', 'collocation-switching controllers act on converged collocation problems')
    lt('EstimateEmbeddedErrorCollocation', 'AdaptivityCollocation', 'estimate before the controller that reads it')
    lt('AdaptivityCollocation', 'AdaptiveCollocation', 'switching the collocation problem comes last')
    # the slope limiter is registered relative to the limiter
    fn = repo.func(LIM, 'StepSizeLimiter.dependencies')
    src = ast.unparse(fn)
    ok = "['control_order'] = self.params.control_order - 1" in src and 'add_convergence_controller(StepSizeSlopeLimiter' in src
    R.check(ok, 'StepSizeLimiter.dependencies :: slope limiter registered with control_order - 1', f'{LIM}:StepSizeLimiter.dependencies', "control_order = self.params.control_order - 1", src[-200:])


@rule('C09', 'C09.R10', 'Tend limiting: new dt = min(proposal or dt, max((Tend - t)/size, dt_initial)); serial and MPI agree on the skeleton', floor=3)
def r10(ctx, R):
    repo = ctx.repo
    sk = {}
    for cn in ('SpreadStepSizesBlockwiseNonMPI', 'SpreadStepSizesBlockwiseMPI'):
        fn = repo.func(SP, f'{cn}.prepare_next_block')
        w = f'{SP}:{cn}.prepare_next_block'
        R.fn(w)
        N = Normalizer(fn, inline_scalars=False)
        src = [c for c in N.contribs if c.target.startswith('new_steps[') and c.rhs and c.rhs.startswith('min(')]
        sk[cn] = src[0].rhs if src else None
        if sk[cn]:
            m = re.match(r'min\(\[(.+?)\.status\.dt_new if ', sk[cn])
            if m:
                sk[cn] = sk[cn].replace(m.group(1), 'l')
        ok = len(src) == 1 and sk[cn] == 'min([l.status.dt_new if l.status.dt_new is not None else l.params.dt, max([dt_max, l.params.dt_initial])])'
        R.check(ok, f'{cn} :: new step = min(proposal if set else dt, max(dt_max, dt_initial))', w, 'min([dt_new if dt_new is not None else dt, max([dt_max, dt_initial])])', sk[cn])
        dm = [c for c in N.contribs if c.target == 'dt_max']
        want = '(Tend - time[restart_at] - dt_all[restart_at]) / size if self.params.overwrite_to_reach_Tend else np.inf' if cn.endswith('NonMPI') else 'comm.bcast((Tend - time) / size, root=restart_at) if self.params.overwrite_to_reach_Tend else np.inf'
        R.check(len(dm) == 1 and dm[0].rhs == want, f'{cn} :: dt_max = (Tend - next block start)/size when overwrite_to_reach_Tend else inf', w, want, [c.rhs for c in dm])
    R.check(sk['SpreadStepSizesBlockwiseNonMPI'] == sk['SpreadStepSizesBlockwiseMPI'], 'SpreadStepSizesBlockwise :: serial and MPI flavours share the min/max skeleton', SP, 'identical normal form', sk)


@rule('C09', 'C09.R11', 'restart position: the steps before the first restarted one are kept, the next block begins at its start time with its start value (run() chains shared with C06.R1/R2/R4)', floor=25)
def r11(ctx, R):
    from . import c06
    c06.r1(ctx, R)
    c06.r2(ctx, R)
    c06.r4(ctx, R)


@rule('C09', 'C09.R12', 'retry bound per step: a step that is computed for the first time starts with a zero retry counter - after prepare_next_block every slot of the next block has been assigned one (coverage analysis shared with C19.R8)', floor=1)
def r12(ctx, R):
    from . import c19
    c19.r8(ctx, R)


@rule('C09', 'C09.R13', 'the configured limits are the ones that clip: a limiter / estimator that an adaptivity controller adds as a dependency still honours the manual entry of the description (its setup() reaches the base-class merge), and the validations of the adaptivity controllers read restol / maxiter from the section that declares them (shared with C20.R6 / C20.R11)', floor=16)
def r13(ctx, R):
    from . import c20
    c20.dep_setups(ctx, R)
    c20.r11(ctx, R)


@rule('C09', 'C09.R14', 'beta, the tolerances and the limits are the configured ones: in every setup() of a convergence controller the user-carrying part comes last, so a user value overrides every default (shared with C20.R6)', floor=70)
def r14(ctx, R):
    from . import c20
    c20.r6(ctx, R)


@rule('C09', 'C09.R15', 'a rejected step is retried with ITS proposal: the step-size spreader is told to take the step size from the first RESTARTED step exactly when the block is not restarted from its first step (with restart_from_first_step every step carries the flag, so "first restarted" would be slot 0, which usually passed and proposes a larger step)', floor=1)
def r15(ctx, R):
    repo = ctx.repo
    rel = CC + 'basic_restarting.py'
    fn = repo.func(rel, 'BasicRestarting.dependencies')
    w = f'{rel}:BasicRestarting.dependencies'
    R.fn(w)
    vals = [ast.unparse(v) for d in ast.walk(fn) if isinstance(d, ast.Dict) for k, v in zip(d.keys, d.values) if isinstance(k, ast.Constant) and k.value == 'spread_from_first_restarted']
    R.check(vals == ['not self.params.restart_from_first_step'], "BasicRestarting.dependencies :: 'spread_from_first_restarted' = not restart_from_first_step", w, 'not self.params.restart_from_first_step', vals)


@rule('C09', 'C09.R16', 'accepted means estimate below tolerance (converged-collocation adaptivity): at convergence the step restarts because of the ERROR ESTIMATE whenever it does not restart because of non-convergence - the error test `estimate > e_tol` sits in the else-arm of exactly the test `restart_at_maxiter and residual > restol and not e_tol_converged`, so switching restart_at_maxiter off never switches the error test off', floor=1)
def r16(ctx, R):
    repo = ctx.repo
    rel = CC + 'adaptivity.py'
    fn = repo.func(rel, 'AdaptivityForConvergedCollocationProblems.determine_restart')
    w = f'{rel}:AdaptivityForConvergedCollocationProblems.determine_restart'
    R.fn(w)
    cfg = FuncCFG(fn)
    err = [(n, s) for n, s in cfg.stmt_of.items() if isinstance(s, ast.Assign) and ast.unparse(s.targets[0]) == 'S.status.restart' and ast.unparse(s.value) == 'True' and any('get_local_error_estimate' in ast.unparse(t) and pol for t, pol in cfg.guards.get(id(s), ()))]
    ok = len(err) == 1
    found = []
    if ok:
        gs = cfg.guards[id(err[0][1])]
        neg = [ast.unparse(t) for t, pol in gs if not pol]
        found = neg
        # the only NEGATED guard between get_convergence and the error test is the complete non-convergence test
        cands = [g for g in neg if 'restol' in g or 'restart_at_maxiter' in g or 'e_tol_converged' in g]
        from ..norm import guards_nnf
        ok = len(cands) == 1
        if ok:
            nf = guards_nnf([cands[0]])
            atoms = set(nf[1]) if isinstance(nf, tuple) and nf[0] == 'and' else {nf}
            ok = 'self.params.restart_at_maxiter' in atoms and any(isinstance(a, str) and 'restol' in a for a in atoms) and ('not', 'e_tol_converged') in atoms and len(atoms) == 3
        pos = [ast.unparse(t) for t, pol in gs if pol]
        ok = ok and any('get_convergence' in g for g in pos) and len([g for g in pos if 'get_local_error_estimate' in g]) == 1 and len(pos) == 2
    R.check(ok, 'AdaptivityForConvergedCollocationProblems.determine_restart :: the error-estimate restart is the else-arm of the complete non-convergence test', w, 'if converged: if restart_at_maxiter and residual > restol and not e_tol_converged: .. elif estimate > e_tol: restart = True', found)


@rule('C09', 'C09.R17', 'the step size of the block is set on EVERY level: the loops of the step-size spreaders that compute the new step per level and the loops that write params.dt run over all levels of the step', floor=4)
def r17(ctx, R):
    repo = ctx.repo
    rel = CC + 'spread_step_sizes.py'
    n = 0
    for cn in ('SpreadStepSizesBlockwiseNonMPI', 'SpreadStepSizesBlockwiseMPI'):
        fn = repo.func(rel, f'{cn}.prepare_next_block')
        w = f'{rel}:{cn}.prepare_next_block'
        R.fn(w)
        for l in walk_no_nested(fn):
            if isinstance(l, ast.For) and any(isinstance(s_, ast.Assign) and ('new_steps[' in ast.unparse(s_.targets[0]) or ast.unparse(s_.targets[0]).endswith('.params.dt')) for s_ in ast.walk(l)):
                n += 1
                it = ast.unparse(l.iter)
                R.check(re.fullmatch(r'range\(len\((S|MS\[spread_from_step\])\.levels\)\)', it) is not None, f'{cn}.prepare_next_block :: loop over ALL levels', w, 'for i in range(len(S.levels))', it)
    if n < 4:
        raise AnalysisError(f'C09.R17: only {n} per-level loops found in the step-size spreaders')
