"""C12 - problem classes honour the solver contract: purity clause (arguments are never written, results are fresh)."""

import ast
import re

from ..model import AnalysisError, ClassInfo
from ..purity import Purity
from ..runner import rule

CONTRACT = re.compile(r'^(eval_f.*|solve_system.*|solve_jacobian|u_exact|apply_mass_matrix|build_f|boris_solver|fix_residual|eval_jacobian|get_non_linear_Jacobian)$')
RESULT = re.compile(r'^(eval_f.*|solve_system.*|solve_jacobian|build_f|boris_solver)$')
# documented output parameters (none in implementations/ today except the residual fixer, which exists to edit its argument)
OUTPUT_PARAMS = {('fix_residual', 'res'): 'fix_residual(res) is the documented in-place hook for boundary rows of the residual'}


def _problems(repo):
    base = repo.cls('pySDC/core/problem.py', 'Problem')
    out = [c for c in repo.subclasses(base) if repo.is_library(c)]
    # problem-like classes that do not derive from Problem but are used through the same contract
    return out


@rule('C12', 'C12.R1', 'argument purity: eval_f / solve_system* / u_exact / ... never write into an object they were handed (flow-sensitive alias/view analysis)', floor=240)
def r1(ctx, R):
    repo = ctx.repo
    for ci in _problems(repo):
        for name, fn in ci.methods.items():
            if not CONTRACT.match(name):
                continue
            w = f'{ci.module.relpath}:{ci.name}.{name}'
            R.fn(w)
            P = Purity(fn, resolver=lambda m, _ci=ci: (repo.resolve(_ci, m) or (None, None))[1])
            hits = [h for h in P.hits if h.params()]
            if not hits:
                R.ok(f'{ci.name}.{name} :: no in-place write reaches a parameter', w, found=f'{len(P.params)} parameter(s) tracked; {len(P.aug_alias)} rebinding augmented assignment(s) on aliases (value-semantic, see C13.R1)')
                continue
            for h in hits:
                for p in h.params():
                    if (name, p) in OUTPUT_PARAMS:
                        R.exc(f'{ci.name}.{name} :: writes {h.target} (parameter {p})', w, OUTPUT_PARAMS[(name, p)])
                    else:
                        R.bad(f'{ci.name}.{name} :: writes {h.target} (parameter {p})', w, 'arguments are read-only; work on a copy / fresh allocation', f'{h.detail}: `{ast.unparse(h.node)[:90]}`')


@rule('C12', 'C12.R2', 'fresh result: eval_f / solve_system* return an object allocated in the call, never an argument, a view of one, or a cached attribute of self', floor=175)
def r2(ctx, R):
    repo = ctx.repo
    prel = 'pySDC/core/problem.py'
    base = repo.cls(prel, 'Problem')
    for prop, ctor in (('u_init', 'self.dtype_u(self.init)'), ('f_init', 'self.dtype_f(self.init)')):
        fn = base.methods.get(prop)
        if fn is None:
            raise AnalysisError(f'Problem.{prop} vanished')
        rets = [ast.unparse(s.value) for s in ast.walk(fn) if isinstance(s, ast.Return) and s.value is not None]
        R.check(rets == [ctor], f'Problem.{prop} :: allocates on every access', f'{prel}:Problem.{prop}', ctor, rets)
    for ci in _problems(repo):
        for name, fn in ci.methods.items():
            if not RESULT.match(name):
                continue
            w = f'{ci.module.relpath}:{ci.name}.{name}'
            P = Purity(fn, track_self=True)
            if not P.returns:
                continue
            R.fn(w)
            bad = [(s, [t for t in tags if t[0] != 'fresh']) for s, tags in P.returns]
            bad = [(s, d) for s, d in bad if d]
            if not bad:
                R.ok(f'{ci.name}.{name} :: every returned value is fresh', w, found=f'{len(P.returns)} return(s)')
            for s, d in bad:
                R.bad(f'{ci.name}.{name} :: returns `{ast.unparse(s.value)[:40]}`', w, 'a value allocated in this call', f'may be {sorted(d)}')


def _add_terms(n):
    if isinstance(n, ast.BinOp) and isinstance(n.op, ast.Add):
        return _add_terms(n.left) + _add_terms(n.right)
    return [n]


def _per_index_form(t):
    """(k, text with every `X[k]` replaced by `X[#]`) if the term mentions exactly one constant integer subscript value k"""
    import copy
    ks = {s.slice.value for s in ast.walk(t) if isinstance(s, ast.Subscript) and isinstance(s.slice, ast.Constant) and isinstance(s.slice.value, int) and not isinstance(s.slice.value, bool)}
    if len(ks) != 1:
        return None
    k = next(iter(ks))

    class T(ast.NodeTransformer):
        def visit_Subscript(self, s):
            self.generic_visit(s)
            if isinstance(s.slice, ast.Constant) and s.slice.value == k:
                s.slice = ast.Name('#', ast.Load())
            return s

    return k, ast.unparse(T().visit(copy.deepcopy(t)))


def dimension_sums(tree):
    """maximal `+` chains of >= 3 terms that are written once per dimension index (each term mentions one distinct constant index)"""
    inner = set()
    out = []
    for node in ast.walk(tree):
        if isinstance(node, ast.BinOp) and isinstance(node.op, ast.Add) and id(node) not in inner:
            for x in ast.walk(node):
                if x is not node and isinstance(x, ast.BinOp) and isinstance(x.op, ast.Add):
                    inner.add(id(x))
            ts = _add_terms(node)
            forms = [_per_index_form(t) for t in ts]
            if len(ts) >= 3 and all(f is not None for f in forms) and len({k for k, _ in forms}) == len(ts):
                out.append((node, forms))
    return out


_CONTROL_SUM = "rho = (2.0 - 2.0 * c(f[0] * dx)) / dx**2 + (2.0 - 2.0 * c(f[1] * dx)) + (2.0 - 2.0 * c(f[2] * dx)) / dx**2"


@rule('C12', 'C12.R3', 'closed-form solutions and operators written once per dimension treat every dimension alike: in a sum of >= 3 per-index terms no single term deviates from the form all the others share', floor=2)
def r3(ctx, R):
    import collections
    repo = ctx.repo
    ctl = dimension_sums(ast.parse(_CONTROL_SUM))
    hit = bool(ctl) and collections.Counter(f for _, f in ctl[0][1]).most_common()[-1][1] == 1 and len(set(f for _, f in ctl[0][1])) == 2
    R.check(hit, 'positive control :: the embedded example (a decay rate whose middle term lacks / dx**2) is recognised as one deviating term', 'sa/rules/c12.py:_CONTROL_SUM', 'one deviating term among three', [f for _, f in ctl[0][1]] if ctl else 'no per-dimension sum found')
    for m in repo.modules.values():
        if 'problem_classes' not in m.relpath or not repo.is_library(m):
            continue
        for node, forms in dimension_sums(m.tree):
            cnt = collections.Counter(f for _, f in forms)
            w = f'{m.relpath}:{node.lineno}'
            fn = next((f.name for f in ast.walk(m.tree) if isinstance(f, ast.FunctionDef) and f.lineno <= node.lineno <= f.end_lineno), '?')
            c = f'{m.relpath.split("/")[-1]}:{fn} :: per-dimension sum `{cnt.most_common(1)[0][0][:60]}` ({len(forms)} terms)'
            if len(cnt) == 1:
                R.ok(c, w, found='all terms share one form')
            elif len(cnt) == 2 and cnt.most_common()[-1][1] == 1 and len(forms) >= 3:
                dev = cnt.most_common()[-1][0]
                k = next(k for k, f in forms if f == dev)
                R.bad(c, w, f'every term of the form {cnt.most_common(1)[0][0]}', f'the term for index {k} is {dev}')
            # sums whose terms all differ are written per dimension on purpose (different offsets / amplitudes): not judged


class _Unk(Exception):
    pass


def _sym(n):
    """AST -> sympy; calls / attributes / subscripts are opaque atoms, reshape/flatten are transparent, FFTs are linear"""
    import sympy as sp
    if isinstance(n, ast.Constant) and isinstance(n.value, (int, float)) and not isinstance(n.value, bool):
        return sp.nsimplify(n.value)
    if isinstance(n, ast.BinOp):
        a, b = _sym(n.left), _sym(n.right)
        t = type(n.op)
        if t is ast.Add:
            return a + b
        if t is ast.Sub:
            return a - b
        if t is ast.Mult:
            return a * b
        if t is ast.Div:
            return a / b
        if t is ast.Pow:
            return a ** b
        raise _Unk(ast.unparse(n))
    if isinstance(n, ast.UnaryOp) and isinstance(n.op, ast.USub):
        return -_sym(n.operand)
    if isinstance(n, ast.Call) and isinstance(n.func, ast.Attribute) and n.func.attr in ('reshape', 'flatten', 'ravel', 'copy'):
        return _sym(n.func.value)
    if isinstance(n, ast.Call) and re.sub(r'^(np|cp|self\.xp)\.fft\.', '', ast.unparse(n.func)) in ('irfft', 'rfft', 'ifft', 'fft', 'ifft2', 'fft2', 'irfft2', 'rfft2') and len(n.args) == 1 and not n.keywords:
        inner = sp.expand(_sym(n.args[0]))
        F = sp.Function(ast.unparse(n.func).split('.')[-1])
        out = 0
        for t in (inner.args if isinstance(inner, sp.Add) else [inner]):
            dep = [x for x in t.free_symbols if re.search(r'(^|\W)u(\W|$)', str(x))] + [x for x in t.atoms(sp.Function)]
            c, rest = t.as_independent(*dep, as_Add=False) if dep else (t, sp.Integer(1))
            out += c * F(rest)
        return out
    if isinstance(n, (ast.Name, ast.Attribute, ast.Call, ast.Subscript)):
        return sp.Symbol(re.sub(r'\s+', '', ast.unparse(n)))
    raise _Unk(ast.unparse(n))


def _rhs_total(fn, allow=()):
    """sum of everything eval_f stores into the components of its result (straight-line bodies; stores under one of the
    guards in `allow` are taken as unconditional - used when child and parent share the same guard)"""
    from ..inline import facts
    fs = facts(fn)
    fv = [f[1] for f in fs if f[0] == 'assign' and re.search(r'dtype_f\(|f_init', f[2])]
    if len(fv) != 1:
        raise _Unk('result variable not unique')
    V = re.escape(fv[0])
    parts = {}
    for f in fs:
        if f[0] == 'store' and re.match(rf'^{V}(\.\w+)?(\[.*\])?$', f[1]):
            if f[-1] and not set(f[-1]) <= set(allow):
                raise _Unk('conditional store: ' + ' and '.join(f[-1]))
            parts[f[1]] = _sym(ast.parse(f[2], mode='eval').body)
        elif f[0] == 'aug' and re.match(rf'^{V}(\.\w+)?(\[.*\])?$', f[1]):
            if f[-1] and not set(f[-1]) <= set(allow):
                raise _Unk('conditional store: ' + ' and '.join(f[-1]))
            v = _sym(ast.parse(f[3], mode='eval').body)
            parts[f[1]] = parts.get(f[1], 0) + (v if f[2] == 'Add' else -v)
    if not parts:
        raise _Unk('no component store')
    return sum(parts.values()), sorted(parts)


NOT_SPLITTINGS = {
    ('allencahn_front_finel', 'allencahn_front_fullyimplicit'): 'another discretisation of the reaction term (finite-element like), not a splitting of the parent',
    ('fenics_heat_mass', 'fenics_heat'): 'mass-matrix formulation: the child returns M f',
}


@rule('C12', 'C12.R4', 'splittings of one problem sum to the same right-hand side: for every problem class that overrides eval_f of a sibling with another splitting (impl/expl, comp1/comp2, unsplit), the symbolic sum of its components equals the sum of the parent (operators as opaque atoms, reshape transparent, FFTs linear)', floor=14)
def r4(ctx, R):
    import sympy as sp
    repo = ctx.repo
    base = repo.cls('pySDC/core/problem.py', 'Problem')
    for ci in repo.subclasses(base, strict=True):
        if not repo.is_library(ci) or 'eval_f' not in ci.methods:
            continue
        par = [c for c in ci.mro[1:] if isinstance(c, ClassInfo) and 'eval_f' in c.methods and c is not base]
        if not par:
            continue
        w = f'{ci.module.relpath}:{ci.name}.eval_f'
        c = f'{ci.name}.eval_f :: sum of the components == sum of the components of {par[0].name}.eval_f'
        if (ci.name, par[0].name) in NOT_SPLITTINGS:
            R.exc(c, w, NOT_SPLITTINGS[(ci.name, par[0].name)])
            continue
        allow = ()
        try:
            try:
                a, pa = _rhs_total(ci.methods['eval_f'])
                b, pb = _rhs_total(par[0].methods['eval_f'])
            except _Unk as e:
                m = re.fullmatch(r'conditional store: (self\.eps > 0)', str(e))
                if not m:
                    raise
                allow = (m.group(1),)  # the same physical guard in child and parent (reaction term present)
                a, pa = _rhs_total(ci.methods['eval_f'], allow)
                b, pb = _rhs_total(par[0].methods['eval_f'], allow)
        except _Unk as e:
            R.note(c, w, f'not decided: outside the vocabulary of the symbolic comparison ({str(e)[:60]})')
            continue
        R.fn(w)
        d = sp.simplify(sp.expand(a - b))
        # a stabilised variant shifts its implicit operator in __init__ (self.lap -= X): the explicit part must add X*u back
        shift = 0
        init = ci.methods.get('__init__')
        if init is not None:
            for s_ in ast.walk(init):
                if isinstance(s_, ast.AugAssign) and isinstance(s_.op, ast.Sub) and ast.unparse(s_.target) == 'self.lap':
                    shift += _sym(s_.value) * sp.Symbol(ci.methods['eval_f'].args.args[1].arg)
        d = sp.simplify(sp.expand(d - shift))
        what = f'components {pa} of the child sum to the same expression as {pb} of the parent' + (f' (the child subtracts {sp.simplify(shift)} through its shifted implicit operator and must add it back explicitly)' if shift != 0 else '')
        R.check(d == 0, c, w, what, f'difference: {str(d)[:160]}' if d != 0 else 'equal')
