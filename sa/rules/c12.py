"""C12 - problem classes honour the solver contract: purity clause (arguments are never written, results are fresh)."""

import ast
import re

from ..model import AnalysisError, ClassInfo
from ..purity import Purity
from ..runner import rule

CONTRACT = re.compile(r'^(eval_f.*|solve_system.*|solve_jacobian|u_exact|apply_mass_matrix|build_f|boris_solver|fix_residual|eval_jacobian|get_non_linear_Jacobian)$')
RESULT = re.compile(r'^(eval_f.*|solve_system.*|solve_jacobian|build_f|boris_solver)$')
# documented output parameters (none in implementations/ today except the residual fixer, which exists to edit its argument)
OUTPUT_PARAMS = {('fix_residual', 'res'): 'fix_residual(res) is the documented in-place hook for boundary rows of the residual'}


def _problems(repo):
    base = repo.cls('pySDC/core/problem.py', 'Problem')
    out = [c for c in repo.subclasses(base) if repo.is_library(c)]
    # problem-like classes that do not derive from Problem but are used through the same contract
    return out


@rule('C12', 'C12.R1', 'argument purity: eval_f / solve_system* / u_exact / ... never write into an object they were handed (flow-sensitive alias/view analysis)', floor=240)
def r1(ctx, R):
    repo = ctx.repo
    for ci in _problems(repo):
        for name, fn in ci.methods.items():
            if not CONTRACT.match(name):
                continue
            w = f'{ci.module.relpath}:{ci.name}.{name}'
            R.fn(w)
            P = Purity(fn, resolver=lambda m, _ci=ci: (repo.resolve(_ci, m) or (None, None))[1])
            # library routines that are TOLD to work in place: overwrite_a / overwrite_b / overwrite_x / out= with an argument of ours
            prm = {a.arg for a in fn.args.args} - {'self'}
            for c in ast.walk(fn):
                if isinstance(c, ast.Call):
                    ow = [k.arg for k in c.keywords if k.arg and k.arg.startswith('overwrite') and isinstance(k.value, ast.Constant) and k.value.value is True]
                    outs = [k.value.id for k in c.keywords if k.arg == 'out' and isinstance(k.value, ast.Name) and k.value.id in prm]
                    direct = [a.id for a in c.args if isinstance(a, ast.Name) and a.id in prm]
                    if (ow and direct) or outs:
                        R.bad(f'{ci.name}.{name} :: hands parameter {sorted(set(direct + outs))} to a routine that may overwrite it', w, 'arguments are read-only; no overwrite_* / out= on an argument', f'line {c.lineno}: {ast.unparse(c)[:90]}')
            hits = [h for h in P.hits if h.params()]
            if not hits:
                R.ok(f'{ci.name}.{name} :: no in-place write reaches a parameter', w, found=f'{len(P.params)} parameter(s) tracked; {len(P.aug_alias)} rebinding augmented assignment(s) on aliases (value-semantic, see C13.R1)')
                continue
            for h in hits:
                for p in h.params():
                    if (name, p) in OUTPUT_PARAMS:
                        R.exc(f'{ci.name}.{name} :: writes {h.target} (parameter {p})', w, OUTPUT_PARAMS[(name, p)])
                    else:
                        R.bad(f'{ci.name}.{name} :: writes {h.target} (parameter {p})', w, 'arguments are read-only; work on a copy / fresh allocation', f'{h.detail}: `{ast.unparse(h.node)[:90]}`')


@rule('C12', 'C12.R2', 'fresh result: eval_f / solve_system* return an object allocated in the call, never an argument, a view of one, or a cached attribute of self', floor=175)
def r2(ctx, R):
    repo = ctx.repo
    prel = 'pySDC/core/problem.py'
    base = repo.cls(prel, 'Problem')
    for prop, ctor in (('u_init', 'self.dtype_u(self.init)'), ('f_init', 'self.dtype_f(self.init)')):
        fn = base.methods.get(prop)
        if fn is None:
            raise AnalysisError(f'Problem.{prop} vanished')
        rets = [ast.unparse(s.value) for s in ast.walk(fn) if isinstance(s, ast.Return) and s.value is not None]
        R.check(rets == [ctor], f'Problem.{prop} :: allocates on every access', f'{prel}:Problem.{prop}', ctor, rets)
    for ci in _problems(repo):
        for name, fn in ci.methods.items():
            if not RESULT.match(name):
                continue
            w = f'{ci.module.relpath}:{ci.name}.{name}'
            P = Purity(fn, track_self=True)
            if not P.returns:
                continue
            R.fn(w)
            bad = [(s, [t for t in tags if t[0] != 'fresh']) for s, tags in P.returns]
            bad = [(s, d) for s, d in bad if d]
            if not bad:
                R.ok(f'{ci.name}.{name} :: every returned value is fresh', w, found=f'{len(P.returns)} return(s)')
            for s, d in bad:
                R.bad(f'{ci.name}.{name} :: returns `{ast.unparse(s.value)[:40]}`', w, 'a value allocated in this call', f'may be {sorted(d)}')


def _add_terms(n):
    if isinstance(n, ast.BinOp) and isinstance(n.op, ast.Add):
        return _add_terms(n.left) + _add_terms(n.right)
    return [n]


def _per_index_form(t):
    """(k, text with every `X[k]` replaced by `X[#]`) if the term mentions exactly one constant integer subscript value k"""
    import copy
    ks = {s.slice.value for s in ast.walk(t) if isinstance(s, ast.Subscript) and isinstance(s.slice, ast.Constant) and isinstance(s.slice.value, int) and not isinstance(s.slice.value, bool)}
    if len(ks) != 1:
        return None
    k = next(iter(ks))

    class T(ast.NodeTransformer):
        def visit_Subscript(self, s):
            self.generic_visit(s)
            if isinstance(s.slice, ast.Constant) and s.slice.value == k:
                s.slice = ast.Name('#', ast.Load())
            return s

    return k, ast.unparse(T().visit(copy.deepcopy(t)))


def dimension_sums(tree):
    """maximal `+` chains of >= 3 terms that are written once per dimension index (each term mentions one distinct constant index)"""
    inner = set()
    out = []
    for node in ast.walk(tree):
        if isinstance(node, ast.BinOp) and isinstance(node.op, ast.Add) and id(node) not in inner:
            for x in ast.walk(node):
                if x is not node and isinstance(x, ast.BinOp) and isinstance(x.op, ast.Add):
                    inner.add(id(x))
            ts = _add_terms(node)
            forms = [_per_index_form(t) for t in ts]
            if len(ts) >= 3 and all(f is not None for f in forms) and len({k for k, _ in forms}) == len(ts):
                out.append((node, forms))
    return out


_CONTROL_SUM = "rho = (2.0 - 2.0 * c(f[0] * dx)) / dx**2 + (2.0 - 2.0 * c(f[1] * dx)) + (2.0 - 2.0 * c(f[2] * dx)) / dx**2"


@rule('C12', 'C12.R3', 'closed-form solutions and operators written once per dimension treat every dimension alike: in a sum of >= 3 per-index terms no single term deviates from the form all the others share', floor=2)
def r3(ctx, R):
    import collections
    repo = ctx.repo
    ctl = dimension_sums(ast.parse(_CONTROL_SUM))
    hit = bool(ctl) and collections.Counter(f for _, f in ctl[0][1]).most_common()[-1][1] == 1 and len(set(f for _, f in ctl[0][1])) == 2
    R.check(hit, 'positive control :: the embedded example (a decay rate whose middle term lacks / dx**2) is recognised as one deviating term', 'sa/rules/c12.py:_CONTROL_SUM', 'one deviating term among three', [f for _, f in ctl[0][1]] if ctl else 'no per-dimension sum found')
    for m in repo.modules.values():
        if 'problem_classes' not in m.relpath or not repo.is_library(m):
            continue
        for node, forms in dimension_sums(m.tree):
            cnt = collections.Counter(f for _, f in forms)
            w = f'{m.relpath}:{node.lineno}'
            fn = next((f.name for f in ast.walk(m.tree) if isinstance(f, ast.FunctionDef) and f.lineno <= node.lineno <= f.end_lineno), '?')
            c = f'{m.relpath.split("/")[-1]}:{fn} :: per-dimension sum `{cnt.most_common(1)[0][0][:60]}` ({len(forms)} terms)'
            if len(cnt) == 1:
                R.ok(c, w, found='all terms share one form')
            elif len(cnt) == 2 and cnt.most_common()[-1][1] == 1 and len(forms) >= 3:
                dev = cnt.most_common()[-1][0]
                k = next(k for k, f in forms if f == dev)
                R.bad(c, w, f'every term of the form {cnt.most_common(1)[0][0]}', f'the term for index {k} is {dev}')
            # sums whose terms all differ are written per dimension on purpose (different offsets / amplitudes): not judged


class _Unk(Exception):
    pass


def _sym(n):
    """AST -> sympy; calls / attributes / subscripts are opaque atoms, reshape/flatten are transparent, FFTs are linear"""
    import sympy as sp
    if isinstance(n, ast.Constant) and isinstance(n.value, (int, float)) and not isinstance(n.value, bool):
        return sp.nsimplify(n.value)
    if isinstance(n, ast.BinOp):
        a, b = _sym(n.left), _sym(n.right)
        t = type(n.op)
        if t is ast.Add:
            return a + b
        if t is ast.Sub:
            return a - b
        if t is ast.Mult:
            return a * b
        if t is ast.Div:
            return a / b
        if t is ast.Pow:
            return a ** b
        raise _Unk(ast.unparse(n))
    if isinstance(n, ast.UnaryOp) and isinstance(n.op, ast.USub):
        return -_sym(n.operand)
    if isinstance(n, ast.Call) and isinstance(n.func, ast.Attribute) and n.func.attr in ('reshape', 'flatten', 'ravel', 'copy'):
        return _sym(n.func.value)
    if isinstance(n, ast.Call) and re.sub(r'^(np|cp|self\.xp)\.fft\.', '', ast.unparse(n.func)) in ('irfft', 'rfft', 'ifft', 'fft', 'ifft2', 'fft2', 'irfft2', 'rfft2') and len(n.args) == 1 and not n.keywords:
        inner = sp.expand(_sym(n.args[0]))
        F = sp.Function(ast.unparse(n.func).split('.')[-1])
        out = 0
        for t in (inner.args if isinstance(inner, sp.Add) else [inner]):
            dep = [x for x in t.free_symbols if re.search(r'(^|\W)u(\W|$)', str(x))] + [x for x in t.atoms(sp.Function)]
            c, rest = t.as_independent(*dep, as_Add=False) if dep else (t, sp.Integer(1))
            out += c * F(rest)
        return out
    if isinstance(n, (ast.Name, ast.Attribute, ast.Call, ast.Subscript)):
        return sp.Symbol(re.sub(r'\s+', '', ast.unparse(n)))
    raise _Unk(ast.unparse(n))


def _rhs_total(fn, allow=()):
    """sum of everything eval_f stores into the components of its result (straight-line bodies; stores under one of the
    guards in `allow` are taken as unconditional - used when child and parent share the same guard)"""
    from ..inline import facts
    fs = facts(fn)
    fv = [f[1] for f in fs if f[0] == 'assign' and re.search(r'dtype_f\(|f_init', f[2])]
    if len(fv) != 1:
        raise _Unk('result variable not unique')
    V = re.escape(fv[0])
    parts = {}
    for f in fs:
        if f[0] == 'store' and re.match(rf'^{V}(\.\w+)?(\[.*\])?$', f[1]):
            if f[-1] and not set(f[-1]) <= set(allow):
                raise _Unk('conditional store: ' + ' and '.join(f[-1]))
            parts[f[1]] = _sym(ast.parse(f[2], mode='eval').body)
        elif f[0] == 'aug' and re.match(rf'^{V}(\.\w+)?(\[.*\])?$', f[1]):
            if f[-1] and not set(f[-1]) <= set(allow):
                raise _Unk('conditional store: ' + ' and '.join(f[-1]))
            v = _sym(ast.parse(f[3], mode='eval').body)
            parts[f[1]] = parts.get(f[1], 0) + (v if f[2] == 'Add' else -v)
    if not parts:
        raise _Unk('no component store')
    return sum(parts.values()), sorted(parts)


NOT_SPLITTINGS = {
    ('allencahn_front_finel', 'allencahn_front_fullyimplicit'): 'another discretisation of the reaction term (finite-element like), not a splitting of the parent',
    ('fenics_heat_mass', 'fenics_heat'): 'mass-matrix formulation: the child returns M f',
}


@rule('C12', 'C12.R4', 'splittings of one problem sum to the same right-hand side: for every problem class that overrides eval_f of a sibling with another splitting (impl/expl, comp1/comp2, unsplit), the symbolic sum of its components equals the sum of the parent (operators as opaque atoms, reshape transparent, FFTs linear)', floor=14)
def r4(ctx, R):
    import sympy as sp
    repo = ctx.repo
    base = repo.cls('pySDC/core/problem.py', 'Problem')
    for ci in repo.subclasses(base, strict=True):
        if not repo.is_library(ci) or 'eval_f' not in ci.methods:
            continue
        par = [c for c in ci.mro[1:] if isinstance(c, ClassInfo) and 'eval_f' in c.methods and c is not base]
        if not par:
            continue
        w = f'{ci.module.relpath}:{ci.name}.eval_f'
        c = f'{ci.name}.eval_f :: sum of the components == sum of the components of {par[0].name}.eval_f'
        if (ci.name, par[0].name) in NOT_SPLITTINGS:
            R.exc(c, w, NOT_SPLITTINGS[(ci.name, par[0].name)])
            continue
        allow = ()
        try:
            try:
                a, pa = _rhs_total(ci.methods['eval_f'])
                b, pb = _rhs_total(par[0].methods['eval_f'])
            except _Unk as e:
                m = re.fullmatch(r'conditional store: (self\.eps > 0)', str(e))
                if not m:
                    raise
                allow = (m.group(1),)  # the same physical guard in child and parent (reaction term present)
                a, pa = _rhs_total(ci.methods['eval_f'], allow)
                b, pb = _rhs_total(par[0].methods['eval_f'], allow)
        except _Unk as e:
            R.note(c, w, f'not decided: outside the vocabulary of the symbolic comparison ({str(e)[:60]})')
            continue
        R.fn(w)
        d = sp.simplify(sp.expand(a - b))
        # a stabilised variant shifts its implicit operator in __init__ (self.lap -= X): the explicit part must add X*u back
        shift = 0
        init = ci.methods.get('__init__')
        if init is not None:
            for s_ in ast.walk(init):
                if isinstance(s_, ast.AugAssign) and isinstance(s_.op, ast.Sub) and ast.unparse(s_.target) == 'self.lap':
                    shift += _sym(s_.value) * sp.Symbol(ci.methods['eval_f'].args.args[1].arg)
        d = sp.simplify(sp.expand(d - shift))
        what = f'components {pa} of the child sum to the same expression as {pb} of the parent' + (f' (the child subtracts {sp.simplify(shift)} through its shifted implicit operator and must add it back explicitly)' if shift != 0 else '')
        R.check(d == 0, c, w, what, f'difference: {str(d)[:160]}' if d != 0 else 'equal')
        # the operands the operators act on: state that BOTH variants prepare on self before applying an operator (boundary
        # values embedded around the inner points) is prepared identically
        from ..inline import facts as _facts

        def prep(fn):
            out = {}
            for f in _facts(fn):
                if f[0] in ('store', 'aug') and f[1].startswith('self.'):
                    out.setdefault(re.match(r'self\.\w+', f[1]).group(0), set()).add((f[1], f[2]))
            return out
        pa_, pb_ = prep(ci.methods['eval_f']), prep(par[0].methods['eval_f'])
        for attr in sorted(set(pa_) & set(pb_)):
            R.check(pa_[attr] == pb_[attr], f'{ci.name}.eval_f :: {attr} is prepared exactly as in {par[0].name}.eval_f (same boundary / embedding values)', w, sorted(pb_[attr])[:3], sorted(pa_[attr] - pb_[attr])[:3])


def _dict_attrs(repo, ci):
    """attributes of ci (anywhere in its MRO) that are bound to a dict: self.X = {} / dict()"""
    out = set()
    for c in ci.mro:
        if not isinstance(c, ClassInfo):
            continue
        for fn in c.methods.values():
            for s in ast.walk(fn):
                if isinstance(s, ast.Assign) and len(s.targets) == 1 and isinstance(s.targets[0], ast.Attribute) and isinstance(s.targets[0].value, ast.Name) and s.targets[0].value.id == 'self':
                    if isinstance(s.value, ast.Dict) or (isinstance(s.value, ast.Call) and ast.unparse(s.value.func) == 'dict'):
                        out.add(s.targets[0].attr)
    return out


def _cache_keys(fn, dicts):
    """key expressions with which fn looks into / stores into a dict attribute of self"""
    keys = []
    for x in ast.walk(fn):
        if isinstance(x, ast.Subscript) and isinstance(x.value, ast.Attribute) and isinstance(x.value.value, ast.Name) and x.value.value.id == 'self' and x.value.attr in dicts:
            keys.append((x.value.attr, ast.unparse(x.slice), x.lineno))
        if isinstance(x, ast.Compare) and len(x.ops) == 1 and isinstance(x.ops[0], (ast.In, ast.NotIn)):
            c = x.comparators[0]
            if isinstance(c, ast.Call) and isinstance(c.func, ast.Attribute) and c.func.attr == 'keys':
                c = c.func.value
            if isinstance(c, ast.Attribute) and isinstance(c.value, ast.Name) and c.value.id == 'self' and c.attr in dicts:
                keys.append((c.attr, ast.unparse(x.left), x.lineno))
    return keys


_CONTROL_CACHE = "class P:\n    def __init__(self):\n        self.cached = {}\n    def solve_system(self, rhs, dt, u0, t):\n        k = round(dt, 6)\n        if k not in self.cached:\n            self.cached[k] = 1\n        return self.cached[k]\n"


@rule('C12', 'C12.R5', 'solve_system is a function of its arguments: a cache on the problem object that a solver looks into is keyed by the EXACT argument the cached object depends on (the factor itself, not a rounded / truncated / hashed form of it - two different factors must never share one factorization)', floor=4)
def r5(ctx, R):
    repo = ctx.repo
    pc = ast.parse(_CONTROL_CACHE).body[0]
    kk = _cache_keys(pc.body[1], {'cached'})
    R.check(len(kk) == 3 and all(k == 'k' for _, k, _ in kk), 'positive control :: a cache keyed by a derived local is recognised in the embedded example', 'sa/rules/c12.py:_CONTROL_CACHE', '3 lookups keyed by `k`', kk)
    n = 0
    for ci in _problems(repo):
        dicts = None
        for name, fn in ci.methods.items():
            if name == '__init__':
                continue
            if dicts is None:
                dicts = _dict_attrs(repo, ci)
            if not dicts:
                break
            # approximate hits: a loop over the entries of a cache that accepts a NEAR key
            for l in ast.walk(fn):
                if isinstance(l, ast.For):
                    it = l.iter
                    if isinstance(it, ast.Call) and isinstance(it.func, ast.Attribute) and it.func.attr in ('items', 'keys'):
                        it = it.func.value
                    if isinstance(it, ast.Attribute) and isinstance(it.value, ast.Name) and it.value.id == 'self' and it.attr in dicts:
                        approx = [ast.unparse(c)[:60] for c in ast.walk(l) if isinstance(c, ast.Call) and ast.unparse(c.func).split('.')[-1] in ('isclose', 'allclose')]
                        approx += [ast.unparse(c)[:60] for c in ast.walk(l) if isinstance(c, ast.Compare) and any(isinstance(x, ast.Call) and ast.unparse(x.func) in ('abs', 'np.abs') for x in ast.walk(c.left)) and isinstance(c.ops[0], (ast.Lt, ast.LtE))]
                        if approx:
                            n += 1
                            R.bad(f'{ci.name}.{name} :: the cache self.{it.attr} is searched for an entry whose key is CLOSE to the argument', f'{ci.module.relpath}:{ci.name}.{name}', 'exact key equality (two different factors never share one factorisation)', approx[:2])
            keys = _cache_keys(fn, dicts)
            if not keys:
                continue
            w = f'{ci.module.relpath}:{ci.name}.{name}'
            R.fn(w)
            params = {a.arg for a in fn.args.args} - {'self'}
            for attr in sorted({a for a, _, _ in keys}):
                n += 1
                bad = sorted({f'line {ln}: self.{a}[{k}]' for a, k, ln in keys if a == attr and k not in params and not _evict_key(fn, k) and not re.fullmatch(r"'[^']*'|\"[^\"]*\"", k)})
                R.check(not bad, f'{ci.name}.{name} :: the cache self.{attr} is looked up and filled with a parameter of the call as key', w, f'key in {sorted(params)}', bad)
    if not n:
        raise AnalysisError('C12.R5: the confirmed cache (GenericSpectralLinear.cached_factorizations) not found')


def _evict_key(fn, k):
    """a local that names an EXISTING key of the cache (eviction: `to_evict = list(self.cache.keys())[0]`)"""
    for s in ast.walk(fn):
        if isinstance(s, ast.Assign) and len(s.targets) == 1 and ast.unparse(s.targets[0]) == k and '.keys()' in ast.unparse(s.value):
            return True
    return False


def _helper_roots(fn):
    """{helper name: [set of parameters the arguments of self.<helper>(..) derive from]} - forward pass in statement order,
    strong update for unconditional top-level assignments (so `u, t = u` makes `t` a function of the parameter u only),
    weak update inside branches and loops (loops are processed twice)"""
    params = [a.arg for a in fn.args.args if a.arg != 'self']
    env = {p: {p} for p in params}
    out = {}

    def src(e):
        r = set()
        for x in ast.walk(e):
            if isinstance(x, ast.Name) and x.id in env:
                r |= env[x.id]
        return r

    def calls(e):
        for c in ast.walk(e):
            if isinstance(c, ast.Call) and isinstance(c.func, ast.Attribute) and isinstance(c.func.value, ast.Name) and c.func.value.id == 'self':
                r = set()
                for a in list(c.args) + [k.value for k in c.keywords]:
                    r |= src(a)
                out.setdefault(c.func.attr, []).append(r)

    def visit(stmts, weak):
        for s in stmts:
            if isinstance(s, (ast.Assign, ast.AugAssign, ast.AnnAssign)):
                if s.value is not None:
                    calls(s.value)
                    r = src(s.value)
                else:
                    r = set()
                tg = s.targets if isinstance(s, ast.Assign) else [s.target]
                for t in tg:
                    for e in (t.elts if isinstance(t, (ast.Tuple, ast.List)) else [t]):
                        b = e
                        sub = False
                        while isinstance(b, (ast.Subscript, ast.Attribute)):
                            b = b.value
                            sub = True
                        if isinstance(b, ast.Name):
                            if weak or sub or isinstance(s, ast.AugAssign):
                                env[b.id] = env.get(b.id, set()) | r
                            else:
                                env[b.id] = set(r)
            elif isinstance(s, (ast.For, ast.While)):
                calls(s.iter if isinstance(s, ast.For) else s.test)
                if isinstance(s, ast.For):
                    for e in ast.walk(s.target):
                        if isinstance(e, ast.Name):
                            env[e.id] = env.get(e.id, set()) | src(s.iter)
                visit(s.body, True)
                visit(s.body, True)
                visit(s.orelse, True)
            elif isinstance(s, ast.If):
                calls(s.test)
                visit(s.body, True)
                visit(s.orelse, True)
            elif isinstance(s, (ast.With, ast.Try)):
                visit(getattr(s, 'body', []), True)
                for h in getattr(s, 'handlers', []):
                    visit(h.body, True)
                visit(getattr(s, 'orelse', []), True)
                visit(getattr(s, 'finalbody', []), True)
            elif isinstance(s, (ast.Expr, ast.Return)) and s.value is not None:
                calls(s.value)
            elif isinstance(s, (ast.Assert, ast.Raise)):
                pass
    visit(fn.body, False)
    return params, out


NOT_MODEL_HELPERS = {'dtype_u', 'dtype_f', 'logger', 'work_counters', 'xp', 'init'}


@rule('C12', 'C12.R6', 'solver and right-hand side evaluate the SAME model: a model helper (self.f, self.g, ...) that both eval_f and solve_system of a class call gets the time parameter of the call in both or in neither (a solver that feeds the helper the time argument while eval_f feeds it a component of the state solves u - factor*G(u) = rhs for a G that is not eval_f)', floor=2)
def r6(ctx, R):
    repo = ctx.repo
    n = 0
    for ci in _problems(repo):
        if 'eval_f' not in ci.methods:
            continue
        pe, he = _helper_roots(ci.methods['eval_f'])
        if len(pe) < 2:
            continue
        for sname, sfn in ci.methods.items():
            if not sname.startswith('solve_system'):
                continue
            ps, hs = _helper_roots(sfn)
            if len(ps) < 4:
                continue
            te, ts = pe[1], ps[3]
            for h in sorted((set(he) & set(hs)) - NOT_MODEL_HELPERS):
                r = repo.resolve(ci, h)
                if r is None:
                    continue  # not a method (callable attribute): nothing to pair
                n += 1
                w = f'{ci.module.relpath}:{ci.name}.{sname}'
                R.fn(w)
                ue, us = any(te in x for x in he[h]), any(ts in x for x in hs[h])
                R.check(ue == us, f'{ci.name} :: self.{h}(..) depends on the time argument in eval_f and in {sname} alike', w, f'eval_f: {"uses" if ue else "does not use"} `{te}`', f'{sname}: {"uses" if us else "does not use"} `{ts}`')
    if n < 2:
        raise AnalysisError(f'C12.R6: expected the Prothero-Robinson pair (scalar and autonomous), found {n} paired helper(s)')


@rule('C12', 'C12.R7', 'caches inside problem classes (factorisations, solvers, assembled operators): the key carries everything the cached object depends on, shared (class-level) caches also the attributes of the instance (general memo analysis; R5 checks the exactness of the key)', floor=4)
def r7(ctx, R):
    from .. import memo
    memo.check(ctx, R, lambda m: m.relpath.startswith('pySDC/implementations/problem_classes/'), 'implementations/problem_classes')


_CONTROL_SHARED = '''
class A:
    def __init__(self, n):
        self.lap = self.symbol(n)
    @staticmethod
    @lru_cache(maxsize=None)
    def symbol(n):
        return build(n)
class B(A):
    def __init__(self, n, eps):
        super().__init__(n)
        self.lap -= 2.0 / eps**2
'''


def _shared_attr_mutations(classes, module_funcs=()):
    """classes: list of ast.ClassDef.  Attributes bound to the result of a cached function (shared by every instance that asks
    with the same arguments) and the in-place changes of such an attribute anywhere in the given classes"""
    cached = set()
    for f in module_funcs:
        if isinstance(f, ast.FunctionDef) and any(ast.unparse(d.func if isinstance(d, ast.Call) else d).split('.')[-1] in ('cache', 'lru_cache') for d in f.decorator_list):
            cached.add(f.name)
    for c in classes:
        for f in c.body:
            if isinstance(f, ast.FunctionDef) and any(ast.unparse(d.func if isinstance(d, ast.Call) else d).split('.')[-1] in ('cache', 'lru_cache') for d in f.decorator_list):
                cached.add(f.name)
    shared = {}
    for c in classes:
        for s in ast.walk(c):
            if isinstance(s, ast.Assign) and len(s.targets) == 1 and isinstance(s.targets[0], ast.Attribute) and ast.unparse(s.targets[0].value) == 'self' and isinstance(s.value, ast.Call) and ast.unparse(s.value.func).split('.')[-1] in cached:
                shared[s.targets[0].attr] = f'{c.name} line {s.lineno}'
    muts = []
    for c in classes:
        for s in ast.walk(c):
            tg = [s.target] if isinstance(s, ast.AugAssign) else [t for t in s.targets if isinstance(t, ast.Subscript)] if isinstance(s, ast.Assign) else []
            for t in tg:
                b = t
                while isinstance(b, ast.Subscript):
                    b = b.value
                if isinstance(b, ast.Attribute) and ast.unparse(b.value) == 'self' and b.attr in shared:
                    muts.append(f'{c.name} line {s.lineno}: {ast.unparse(s)[:70]} (self.{b.attr} comes from a cached function, {shared[b.attr]})')
    return shared, muts


@rule('C12', 'C12.R8', 'operators shared through a cached builder are never changed in place: an attribute bound to the result of an @lru_cache / @cache function is one object for all instances on the same grid, so `self.lap -= shift` in a subclass shifts the operator of every other instance (eval_f of the unshifted sibling is then wrong)', floor=1)
def r8(ctx, R):
    repo = ctx.repo
    sh, mu = _shared_attr_mutations([n for n in ast.parse(_CONTROL_SHARED).body if isinstance(n, ast.ClassDef)])
    R.check(set(sh) == {'lap'} and len(mu) == 1, 'positive control :: an in-place shift of a cached operator in a subclass is recognised in the embedded example', 'sa/rules/c12.py:_CONTROL_SHARED', 'one mutation of self.lap', mu)
    by_mod = {}
    for ci in _problems(repo):
        by_mod.setdefault(ci.module.relpath, []).append(ci.node)
    n = 0
    for rel, nodes in sorted(by_mod.items()):
        sh, mu = _shared_attr_mutations(nodes, [x for x in repo.by_relpath[rel].tree.body if isinstance(x, ast.FunctionDef)])
        for a in sh:
            n += 1
        if sh:
            R.check(not mu, f'{rel} :: attributes {sorted(sh)} hold cached (shared) objects and are only read', rel, 'no augmented assignment / element store on them', mu[:3])
    R.ok('implementations/problem_classes :: scan for attributes bound to cached builders', 'pySDC/implementations/problem_classes', found=f'{n} such attribute(s)')


def _newton_sym(n, uname, local):
    """AST -> sympy for Newton residual / Jacobian expressions: the iterate is ONE symbol u (element-wise view), A.dot(x) is A*x,
    diags(x) / eye / Id are x / 1, the embedded vector (uext) is the iterate, rhs is a constant; single-assignment locals are
    substituted"""
    import sympy as sp
    U = sp.Symbol('u')
    if isinstance(n, ast.Constant) and isinstance(n.value, (int, float)) and not isinstance(n.value, bool):
        return sp.nsimplify(n.value)
    if isinstance(n, ast.Name):
        if n.id == uname or n.id in ('uext',):
            return U
        if n.id in ('Id',):
            return sp.Integer(1)
        if n.id in local:
            return _newton_sym(local[n.id], uname, {k: v for k, v in local.items() if k != n.id})
        return sp.Symbol(n.id)
    if isinstance(n, ast.Attribute):
        if ast.unparse(n) in ('self.uext',):
            return U
        if ast.unparse(n) in ('self.Id',):
            return sp.Integer(1)
        return sp.Symbol(ast.unparse(n))
    if isinstance(n, ast.BinOp):
        a, b = _newton_sym(n.left, uname, local), _newton_sym(n.right, uname, local)
        t = type(n.op)
        if t is ast.Add:
            return a + b
        if t is ast.Sub:
            return a - b
        if t is ast.Mult:
            return a * b
        if t is ast.Div:
            return a / b
        if t is ast.Pow:
            return a ** b
        raise _Unk(ast.unparse(n))
    if isinstance(n, ast.UnaryOp) and isinstance(n.op, ast.USub):
        return -_newton_sym(n.operand, uname, local)
    if isinstance(n, ast.Subscript):
        sl = ast.unparse(n.slice)
        if sl in ('1:-1', ':'):
            return _newton_sym(n.value, uname, local)
        raise _Unk(ast.unparse(n))
    if isinstance(n, ast.Call):
        f = ast.unparse(n.func)
        if isinstance(n.func, ast.Attribute) and n.func.attr in ('flatten', 'ravel', 'reshape', 'copy', 'tocsc', 'tocsr'):
            return _newton_sym(n.func.value, uname, local)
        if isinstance(n.func, ast.Attribute) and n.func.attr == 'dot' and len(n.args) == 1:
            return _newton_sym(n.func.value, uname, local) * _newton_sym(n.args[0], uname, local)
        if f.split('.')[-1] == 'diags' and n.args:
            return _newton_sym(n.args[0], uname, local)
        if f.split('.')[-1] in ('rfft', 'irfft', 'fft', 'ifft', 'rfft2', 'irfft2', 'fft2', 'ifft2', 'rfftn', 'irfftn', 'fftn', 'ifftn') and '.fft.' in '.' + f and n.args:
            # a Fourier transform is linear and the operators between the pair are diagonal: transparent in the element-wise view
            return _newton_sym(n.args[0], uname, local)
        if f in ('self.fft.forward', 'self.fft.backward') and n.args:
            return _newton_sym(n.args[0], uname, local)
        if f.split('.')[-1] in ('eye', 'identity'):
            return sp.Integer(1)
        if f.split('.')[-1] == 'sqrt' and len(n.args) == 1:
            return sp.sqrt(_newton_sym(n.args[0], uname, local))
        if f.split('.')[-1] in ('exp', 'sin', 'cos', 'tanh') and len(n.args) == 1:
            return getattr(sp, f.split('.')[-1])(_newton_sym(n.args[0], uname, local))
        raise _Unk(ast.unparse(n)[:40])
    raise _Unk(ast.unparse(n)[:40])


@rule('C12', 'C12.R10', 'Newton solves the equation it evaluates: inside a Newton loop the Jacobian `dg` is the derivative of the residual `g` with respect to the iterate (symbolic differentiation of the extracted expressions; operators are linear atoms, element-wise view) - a residual that lost a coefficient the Jacobian still has converges to the solution of another equation', floor=8)
def r10(ctx, R):
    import sympy as sp
    repo = ctx.repo
    n_dec = 0
    for ci in _problems(repo):
        for name, fn in ci.methods.items():
            if not name.startswith('solve_system'):
                continue
            for loop in [l for l in ast.walk(fn) if isinstance(l, (ast.While, ast.For))]:
                body = [s for s in ast.walk(loop) if isinstance(s, ast.Assign) and len(s.targets) == 1 and isinstance(s.targets[0], ast.Name)]
                gs = [s for s in body if s.targets[0].id == 'g']
                dgs = [s for s in body if s.targets[0].id == 'dg']
                if len(gs) != 1 or len(dgs) != 1:
                    continue
                w = f'{ci.module.relpath}:{ci.name}.{name}'
                c = f'{ci.name}.{name} :: dg = d(g)/d(iterate)'
                # the iterate: the name that the Newton update rebinds / updates (`u -= ..`, `u = u - ..`)
                upd = [s.target.id for s in ast.walk(loop) if isinstance(s, ast.AugAssign) and isinstance(s.target, ast.Name)] + [s.targets[0].id for s in body if isinstance(s.value, ast.BinOp) and isinstance(s.value.left, ast.Name) and s.value.left.id == s.targets[0].id]
                upd = [x for x in upd if x not in ('n', 'res', 'it', 'k', 'niter', 'newton_iter')]
                if not upd:
                    R.note(c, w, 'not decided: the Newton update of the iterate was not recognised')
                    continue
                uname = upd[0]
                counts = {}
                for s in ast.walk(fn):
                    if isinstance(s, ast.Assign) and len(s.targets) == 1 and isinstance(s.targets[0], ast.Name):
                        counts[s.targets[0].id] = counts.get(s.targets[0].id, 0) + 1
                local = {s.targets[0].id: s.value for s in ast.walk(fn) if isinstance(s, ast.Assign) and len(s.targets) == 1 and isinstance(s.targets[0], ast.Name) and counts[s.targets[0].id] == 1 and s.targets[0].id not in ('g', 'dg', uname)}
                try:
                    G = _newton_sym(gs[0].value, uname, local)
                    DG = _newton_sym(dgs[0].value, uname, local)
                except _Unk as e:
                    R.note(c, w, f'not decided: outside the vocabulary of the symbolic differentiation ({str(e)[:50]})')
                    continue
                except RecursionError:
                    R.note(c, w, 'not decided: cyclic local definitions')
                    continue
                R.fn(w)
                n_dec += 1
                d = sp.simplify(sp.expand(sp.diff(G, sp.Symbol('u')) - DG))
                R.check(d == 0, c, w, f'dg = {sp.simplify(sp.diff(G, sp.Symbol("u")))}'[:160], f'dg - dg/du = {str(-d)[:140]}' if d != 0 else 'equal')
    if n_dec < 8:
        raise AnalysisError(f'C12.R10: only {n_dec} Newton loops decided')


class _EvalFCall(ast.NodeTransformer):
    """self.eval_f(<iterate>, ..) -> the name __F__ (the right-hand side of the class itself, whatever it is)"""

    def __init__(self, uname):
        self.uname = uname

    def visit_Call(self, n):
        self.generic_visit(n)
        if ast.unparse(n.func) == 'self.eval_f' and n.args and isinstance(n.args[0], ast.Name) and n.args[0].id == self.uname:
            return ast.copy_location(ast.Name(id='__F__', ctx=ast.Load()), n)
        return n


def _single_locals(fn, skip):
    counts = {}
    for s in ast.walk(fn):
        if isinstance(s, ast.Assign) and len(s.targets) == 1 and isinstance(s.targets[0], ast.Name):
            counts[s.targets[0].id] = counts.get(s.targets[0].id, 0) + 1
        elif isinstance(s, (ast.AugAssign,)) and isinstance(s.target, ast.Name):
            counts[s.target.id] = counts.get(s.target.id, 0) + 2
    return {s.targets[0].id: s.value for s in ast.walk(fn) if isinstance(s, ast.Assign) and len(s.targets) == 1 and isinstance(s.targets[0], ast.Name) and counts[s.targets[0].id] == 1 and s.targets[0].id not in skip}


def _rhs_parts(fn):
    """component -> expressions eval_f assigns to it: f[:] / f.impl[:] / f.comp1[:] ..; allocations are not right-hand sides"""
    parts = {}
    for s in ast.walk(fn):
        if isinstance(s, ast.Assign) and len(s.targets) == 1:
            t = s.targets[0]
            base = t.value if isinstance(t, ast.Subscript) else t
            txt = ast.unparse(base)
            if txt in ('f', 'f.impl', 'f.expl', 'f.comp1', 'f.comp2', 'f.comp3'):
                v = s.value
                if isinstance(v, ast.Call) and ast.unparse(v.func).split('.')[-1] in ('dtype_f', 'f_init') or ast.unparse(v) in ('self.f_init',):
                    continue
                parts.setdefault(txt.split('.')[-1] if '.' in txt else 'full', []).append(v)
    # a component that is also built up by augmented assignments (f.impl[:] = ..; f.impl -= ..) is not ONE expression: not decided
    for s in ast.walk(fn):
        if isinstance(s, ast.AugAssign):
            t = s.target
            base = t.value if isinstance(t, ast.Subscript) else t
            txt = ast.unparse(base)
            if txt in ('f', 'f.impl', 'f.expl', 'f.comp1', 'f.comp2', 'f.comp3'):
                parts.pop(txt.split('.')[-1] if '.' in txt else 'full', None)
    return parts


class _Components(ast.NodeTransformer):
    """component view of small ODE systems: `a, b, c = u`, `x1 = u[0]`, `u[1]`, `rhs[0]` become the names u_0, u_1, .., rhs_0, .."""

    def __init__(self, fn, uname):
        self.uname = uname
        self.env = {}
        bad = set()
        for s in ast.walk(fn):
            if isinstance(s, ast.Assign) and len(s.targets) == 1:
                t, v = s.targets[0], s.value
                if isinstance(t, ast.Tuple) and isinstance(v, ast.Name) and v.id == uname and all(isinstance(e, ast.Name) for e in t.elts):
                    for k, e in enumerate(t.elts):
                        if self.env.setdefault(e.id, k) != k:
                            bad.add(e.id)
                elif isinstance(t, ast.Name) and isinstance(v, ast.Subscript) and isinstance(v.value, ast.Name) and v.value.id == uname and isinstance(v.slice, ast.Constant) and isinstance(v.slice.value, int):
                    if self.env.setdefault(t.id, v.slice.value) != v.slice.value:
                        bad.add(t.id)
                elif isinstance(t, ast.Name) and t.id in self.env:
                    bad.add(t.id)
        for b in bad:
            self.env.pop(b, None)

    def visit_Name(self, n):
        if n.id in self.env:
            return ast.copy_location(ast.Name(id=f'u_{self.env[n.id]}', ctx=ast.Load()), n)
        return n

    def visit_Subscript(self, n):
        if isinstance(n.value, ast.Name) and n.value.id in (self.uname, 'rhs') and isinstance(n.slice, ast.Constant) and isinstance(n.slice.value, int):
            base = 'u' if n.value.id == self.uname else 'rhs'
            return ast.copy_location(ast.Name(id=f'{base}_{n.slice.value}', ctx=ast.Load()), n)
        self.generic_visit(n)
        return n


def _vec_sym(n, uname, local, k, depth=0):
    """vector-valued expression -> list of k sympy expressions (u, rhs are the vectors u_i, rhs_i); scalars scale"""
    import sympy as sp
    if depth > 20:
        raise _Unk('cyclic')
    if isinstance(n, ast.Name):
        if n.id == uname:
            return [sp.Symbol(f'u_{j}') for j in range(k)]
        if n.id == 'rhs':
            return [sp.Symbol(f'rhs_{j}') for j in range(k)]
        if n.id in local:
            return _vec_sym(local[n.id], uname, {a: b for a, b in local.items() if a != n.id}, k, depth + 1)
        raise _Unk(n.id)
    if isinstance(n, ast.Call) and ast.unparse(n.func).split('.')[-1] in ('array', 'asarray') and n.args and isinstance(n.args[0], (ast.List, ast.Tuple)):
        n = n.args[0]
    if isinstance(n, (ast.List, ast.Tuple)):
        if len(n.elts) != k:
            raise _Unk('vector length')
        return [_newton_sym(e, '__no_iterate__', local) for e in n.elts]
    if isinstance(n, ast.UnaryOp) and isinstance(n.op, ast.USub):
        return [-x for x in _vec_sym(n.operand, uname, local, k, depth + 1)]
    if isinstance(n, ast.BinOp):
        if isinstance(n.op, (ast.Add, ast.Sub)):
            a, b = _vec_sym(n.left, uname, local, k, depth + 1), _vec_sym(n.right, uname, local, k, depth + 1)
            return [x + y if isinstance(n.op, ast.Add) else x - y for x, y in zip(a, b)]
        if isinstance(n.op, ast.Mult):
            for sc, ve in ((n.left, n.right), (n.right, n.left)):
                try:
                    v = _vec_sym(ve, uname, local, k, depth + 1)
                except _Unk:
                    continue
                c = _newton_sym(sc, '__no_iterate__', local)
                return [c * x for x in v]
        if isinstance(n.op, ast.Div):
            v = _vec_sym(n.left, uname, local, k, depth + 1)
            c = _newton_sym(n.right, '__no_iterate__', local)
            return [x / c for x in v]
    raise _Unk(ast.unparse(n)[:40])


def _vector_newton(fn, gs_value, uname, efn):
    """decide g = u - factor*F(u) - rhs component by component for a small ODE system; -> (ok, detail) or raises _Unk"""
    import sympy as sp
    lens = [len(c.elts) for c in ast.walk(gs_value) if isinstance(c, (ast.List, ast.Tuple))]
    for s in ast.walk(fn):
        if isinstance(s, ast.Assign) and isinstance(s.value, ast.Call) and ast.unparse(s.value.func).split('.')[-1] == 'array' and s.value.args and isinstance(s.value.args[0], ast.List):
            lens.append(len(s.value.args[0].elts))
    if not lens:
        raise _Unk('no vector literal')
    k = lens[0]
    tr = _Components(fn, uname)
    local = {a: tr.visit(ast.parse(ast.unparse(b), mode='eval').body) for a, b in _single_locals(fn, ('g', 'dg', uname)).items() if a not in tr.env}
    G = _vec_sym(tr.visit(ast.parse(ast.unparse(gs_value), mode='eval').body), uname, local, k)
    euname = efn.args.args[1].arg
    etr = _Components(efn, euname)
    elocal = {a: etr.visit(ast.parse(ast.unparse(b), mode='eval').body) for a, b in _single_locals(efn, (euname,)).items() if a not in etr.env}
    comps, whole = {}, None
    for s in ast.walk(efn):
        if isinstance(s, ast.Assign) and len(s.targets) == 1 and isinstance(s.targets[0], ast.Subscript) and ast.unparse(s.targets[0].value) == 'f':
            sl = s.targets[0].slice
            if isinstance(sl, ast.Constant) and isinstance(sl.value, int):
                comps[sl.value] = s.value
            elif ast.unparse(sl) == ':':
                whole = s.value
    if whole is not None:
        F = _vec_sym(etr.visit(ast.parse(ast.unparse(whole), mode='eval').body), euname, elocal, k)
    elif sorted(comps) == list(range(k)):
        F = [_newton_sym(etr.visit(ast.parse(ast.unparse(comps[j]), mode='eval').body), '__no_iterate__', elocal) for j in range(k)]
    else:
        raise _Unk('eval_f does not assign the components of f one by one')
    fac = sp.Symbol(fn.args.args[2].arg)
    ds = [sp.simplify(sp.expand(G[j] - (sp.Symbol(f'u_{j}') - fac * F[j] - sp.Symbol(f'rhs_{j}')))) for j in range(k)]
    return all(d == 0 for d in ds), {f'component {j}': str(d)[:90] for j, d in enumerate(ds) if d != 0}, k


@rule('C12', 'C12.R11', 'Newton solves the equation of eval_f: the residual `g` of a Newton loop in solve_system* is u - factor*F(u) - rhs with F the part of the right-hand side that eval_f of the SAME class (through the MRO) assigns to the matching component (impl / comp1 / comp2 / the whole f) - compared symbolically, element-wise view, operators as linear atoms; a coefficient changed in g AND dg alike (invisible to R10) converges to the solution of another equation than the one the sweeper integrates', floor=10)
def r11(ctx, R):
    import sympy as sp
    repo = ctx.repo
    U, RHS = sp.Symbol('u'), sp.Symbol('rhs')
    n_dec = 0
    for ci in _problems(repo):
        for name, fn in ci.methods.items():
            if not name.startswith('solve_system') or len(fn.args.args) < 3:
                continue
            for loop in [l for l in ast.walk(fn) if isinstance(l, (ast.While, ast.For))]:
                body = [s for s in ast.walk(loop) if isinstance(s, ast.Assign) and len(s.targets) == 1 and isinstance(s.targets[0], ast.Name)]
                gs = [s for s in body if s.targets[0].id == 'g']
                if len(gs) != 1:
                    continue
                w = f'{ci.module.relpath}:{ci.name}.{name}'
                c = f'{ci.name}.{name} :: g = u - factor*F(u) - rhs with F from eval_f'
                upd = [s.target.id for s in ast.walk(loop) if isinstance(s, ast.AugAssign) and isinstance(s.target, ast.Name)] + [s.targets[0].id for s in body if isinstance(s.value, ast.BinOp) and isinstance(s.value.left, ast.Name) and s.value.left.id == s.targets[0].id]
                upd = [x for x in upd if x not in ('n', 'res', 'it', 'k', 'niter', 'newton_iter')]
                ef = repo.resolve(ci, 'eval_f')
                if not upd or not ef:
                    R.note(c, w, 'not decided: Newton update or eval_f not recognised')
                    continue
                uname = 'u' if 'u' in upd else upd[0]
                fac = sp.Symbol(fn.args.args[2].arg)
                efn = ef[1]
                parts = _rhs_parts(efn)
                comp = {'solve_system': 'impl', 'solve_system_1': 'comp1', 'solve_system_2': 'comp2', 'solve_system_3': 'comp3'}.get(name)
                cands = parts.get(comp) or (parts.get('full') if name == 'solve_system' else None)
                tr = _EvalFCall(uname)
                local = {k: tr.visit(ast.parse(ast.unparse(v), mode='eval').body) for k, v in _single_locals(fn, ('g', 'dg', uname)).items()}
                try:
                    G = _newton_sym(tr.visit(ast.parse(ast.unparse(gs[0].value), mode='eval').body), uname, local)
                except (_Unk, RecursionError) as e:
                    # small ODE systems write the residual component by component
                    try:
                        okv, det, k = _vector_newton(fn, gs[0].value, uname, ef[1])
                    except (_Unk, RecursionError) as e2:
                        R.note(c, w, f'not decided: residual outside the vocabulary ({str(e)[:40]}; component view: {str(e2)[:40]})')
                        continue
                    R.fn(w)
                    n_dec += 1
                    R.check(okv, c, w, f'g_i = u_i - factor*F_i(u) - rhs_i for the {k} components eval_f assigns', det if not okv else 'equal')
                    continue
                F0 = sp.Symbol('__F__')
                if G.has(F0):
                    # the residual is written in terms of self.eval_f(iterate): the equation is that of eval_f by construction
                    R.fn(w)
                    n_dec += 1
                    d = sp.simplify(sp.expand(G - (U - fac * F0 - RHS)))
                    R.check(d == 0, c, w, f'u - {fac}*eval_f(u) - rhs', f'g - (..) = {str(d)[:140]}' if d != 0 else 'equal')
                    continue
                if not cands:
                    R.note(c, w, f'not decided: eval_f of {ef[0].name} assigns no `{comp or "f"}` part in a single expression')
                    continue
                euname = efn.args.args[1].arg
                elocal = _single_locals(efn, (euname,))
                Fs = []
                for e in cands:
                    try:
                        Fs.append(_newton_sym(e, euname, elocal))
                    except (_Unk, RecursionError):
                        pass
                if not Fs:
                    R.note(c, w, 'not decided: right-hand side of eval_f outside the vocabulary')
                    continue
                R.fn(w)
                n_dec += 1
                ds = [sp.simplify(sp.expand(G - (U - fac * F - RHS))) for F in Fs]
                ok = any(d == 0 for d in ds)
                R.check(ok, c, w, f'u - {fac}*({str(Fs[-1])[:110]}) - rhs', f'g - (u - {fac}*F - rhs) = {str(ds[-1])[:140]}' if not ok else 'equal')
    if n_dec < 10:
        raise AnalysisError(f'C12.R11: only {n_dec} Newton residuals decided')


_DIRECT = {'cg', 'gmres', 'bicgstab', 'spsolve', 'solve', 'minres'}


def _unpacked_locals(fn, base):
    """`a, b = self.x, self.y` and `a, b = self.x, self.y`-style tuple unpackings of single-assigned names join the substitution table"""
    out = dict(base)
    for s in ast.walk(fn):
        if isinstance(s, ast.Assign) and len(s.targets) == 1 and isinstance(s.targets[0], ast.Tuple) and isinstance(s.value, ast.Tuple) and len(s.targets[0].elts) == len(s.value.elts):
            for t, v in zip(s.targets[0].elts, s.value.elts):
                if isinstance(t, ast.Name) and t.id not in out:
                    out[t.id] = v
    return out


@rule('C12', 'C12.R12', 'a direct solve inverts the operator of eval_f: where solve_system* hands (M, b) to a linear solver outside any iteration, M u = u - factor*L u and b = rhs + factor*c for the right-hand side F(u) = L u + c that eval_f of the SAME class assigns to the matching component; a closed-form return E(rhs, factor) satisfies E - factor*F(E) - rhs = 0 (symbolic, element-wise view, operators as linear atoms)', floor=14)
def r12(ctx, R):
    import sympy as sp
    repo = ctx.repo
    U, RHS = sp.Symbol('u'), sp.Symbol('rhs')
    n_dec = 0
    for ci in _problems(repo):
        for name, fn in ci.methods.items():
            if not name.startswith('solve_system') or len(fn.args.args) < 3:
                continue
            ef = repo.resolve(ci, 'eval_f')
            if not ef:
                continue
            par = {}
            for n in ast.walk(fn):
                for ch in ast.iter_child_nodes(n):
                    par[ch] = n

            def in_loop(n):
                while n in par:
                    n = par[n]
                    if isinstance(n, (ast.While, ast.For)):
                        return True
                return False

            sites = [c for c in ast.walk(fn) if isinstance(c, ast.Call) and (c.func.attr if isinstance(c.func, ast.Attribute) else getattr(c.func, 'id', '')) in _DIRECT and len(c.args) >= 2 and not in_loop(c)]
            closed = []
            for r in [r for r in ast.walk(fn) if isinstance(r, ast.Return) and r.value is not None and not in_loop(r)]:
                blk = par.get(r)
                body = next((b for b in (getattr(blk, 'body', None), getattr(blk, 'orelse', None)) if isinstance(b, list) and r in b), None)
                if body is None or any(isinstance(x, (ast.While, ast.For, ast.AugAssign)) for x in body[:body.index(r)]):
                    continue
                e = r.value
                if isinstance(e, ast.Name):
                    prev = [x.value for x in body[:body.index(r)] if isinstance(x, ast.Assign) and len(x.targets) == 1 and isinstance(x.targets[0].value if isinstance(x.targets[0], ast.Subscript) else x.targets[0], ast.Name) and (x.targets[0].value if isinstance(x.targets[0], ast.Subscript) else x.targets[0]).id == e.id]
                    e = prev[-1] if prev else None
                if e is not None and not any(isinstance(c, ast.Call) and (c.func.attr if isinstance(c.func, ast.Attribute) else getattr(c.func, 'id', '')) in (_DIRECT | {'dtype_u', 'u_exact', 'solve_system'}) for c in ast.walk(e)):
                    closed.append(e)
            if not sites and not closed:
                continue
            w = f'{ci.module.relpath}:{ci.name}.{name}'
            efn = ef[1]
            parts = _rhs_parts(efn)
            comp = {'solve_system': 'impl', 'solve_system_1': 'comp1', 'solve_system_2': 'comp2', 'solve_system_3': 'comp3'}.get(name)
            cands = parts.get(comp) or (parts.get('full') if name == 'solve_system' else None)
            c0 = f'{ci.name}.{name} :: solves u - factor*F(u) = rhs for the F of eval_f'
            if not cands:
                R.note(c0, w, f'not decided: eval_f of {ef[0].name} assigns no `{comp or "f"}` part in a single expression')
                continue
            euname = efn.args.args[1].arg
            elocal = _unpacked_locals(efn, _single_locals(efn, (euname,)))
            Fs = []
            for e in cands:
                try:
                    Fs.append(_newton_sym(e, euname, elocal))
                except (_Unk, RecursionError):
                    pass
            if not Fs:
                R.note(c0, w, 'not decided: right-hand side of eval_f outside the vocabulary (FFT / helper call)')
                continue
            fac = sp.Symbol(fn.args.args[2].arg)
            loc = _unpacked_locals(fn, _single_locals(fn, ()))
            for c in sites:
                callee = c.func.attr if isinstance(c.func, ast.Attribute) else c.func.id
                cc = f'{ci.name}.{name} :: {callee}(M, b): M = I - factor*L, b = rhs + factor*c for F(u) = L u + c of eval_f'
                try:
                    M, b = _newton_sym(c.args[0], '__no_iterate__', loc), _newton_sym(c.args[1], '__no_iterate__', loc)
                except (_Unk, RecursionError) as e:
                    R.note(cc, w, f'not decided: operator outside the vocabulary ({str(e)[:50]})')
                    continue
                R.fn(w)
                n_dec += 1
                res = []
                for F in Fs:
                    F0 = F.subs(U, 0)
                    res.append((sp.simplify(sp.expand(M * U - (U - fac * sp.expand(F - F0)))), sp.simplify(sp.expand(b - (RHS + fac * F0)))))
                ok = any(a == 0 and bb == 0 for a, bb in res)
                R.check(ok, cc, w, f'M u = u - {fac}*({str(sp.expand(Fs[-1] - Fs[-1].subs(U, 0)))[:80]}), b = rhs + {fac}*({str(Fs[-1].subs(U, 0))[:40]})', {'M u - (..)': str(res[-1][0])[:100], 'b - (..)': str(res[-1][1])[:100]} if not ok else 'equal')
            for e in closed:
                cc = f'{ci.name}.{name} :: closed-form return satisfies E - factor*F(E) = rhs'
                try:
                    E = _newton_sym(e, '__no_iterate__', loc)
                except (_Unk, RecursionError) as ex:
                    R.note(cc, w, f'not decided: closed form outside the vocabulary ({str(ex)[:50]})')
                    continue
                if not E.has(RHS):
                    continue
                R.fn(w)
                n_dec += 1
                ds = [sp.simplify(sp.expand(E - fac * F.subs(U, E) - RHS)) for F in Fs]
                ok = any(d == 0 for d in ds)
                R.check(ok, cc, w, f'E - {fac}*F(E) - rhs = 0 with F(u) = {str(Fs[-1])[:80]}', f'E = {str(E)[:80]}; defect {str(ds[-1])[:100]}' if not ok else 'equal')
    if n_dec < 14:
        raise AnalysisError(f'C12.R12: only {n_dec} direct solves / closed forms decided')


def _mat_sym(n, local):
    """a 2-d array literal, possibly scaled by a scalar, -> sympy Matrix"""
    import sympy as sp
    if isinstance(n, ast.Name) and n.id in local:
        return _mat_sym(local[n.id], {k: v for k, v in local.items() if k != n.id})
    if isinstance(n, ast.Call) and ast.unparse(n.func).split('.')[-1] in ('array', 'asarray') and n.args and isinstance(n.args[0], ast.List) and n.args[0].elts and all(isinstance(r, ast.List) for r in n.args[0].elts):
        return sp.Matrix([[_newton_sym(e, '__no_iterate__', local) for e in r.elts] for r in n.args[0].elts])
    if isinstance(n, ast.BinOp) and isinstance(n.op, (ast.Mult, ast.Div)):
        for sc, mt in ((n.left, n.right), (n.right, n.left)):
            try:
                M = _mat_sym(mt, local)
            except _Unk:
                continue
            c = _newton_sym(sc, '__no_iterate__', local)
            if isinstance(n.op, ast.Div):
                if mt is n.left:
                    return M / c
                raise _Unk('scalar / matrix')
            return c * M
    raise _Unk(ast.unparse(n)[:40])


def _matrix_candidates(scope, tr, local):
    """(name, Matrix) for every 2-d literal assigned to a name in `scope`, with the `name /= c`, `name *= c` that follow applied"""
    out = []
    stmts = sorted((s for s in ast.walk(scope) if isinstance(s, (ast.Assign, ast.AugAssign))), key=lambda s: s.lineno)
    for s in stmts:
        if isinstance(s, ast.Assign) and len(s.targets) == 1 and isinstance(s.targets[0], ast.Name):
            try:
                M = _mat_sym(tr.visit(ast.parse(ast.unparse(s.value), mode='eval').body), local)
            except (_Unk, RecursionError):
                continue
            name = s.targets[0].id
            for a in stmts:
                if isinstance(a, ast.AugAssign) and isinstance(a.target, ast.Name) and a.target.id == name and a.lineno > s.lineno and isinstance(a.op, (ast.Mult, ast.Div)):
                    c = _newton_sym(tr.visit(ast.parse(ast.unparse(a.value), mode='eval').body), '__no_iterate__', local)
                    M = M * c if isinstance(a.op, ast.Mult) else M / c
            out.append((name, M))
    return out


@rule('C12', 'C12.R13', 'hand-written Jacobians of the small ODE systems belong to the residual: a 2-d array literal that a Newton loop (or the solve_jacobian it calls) builds is either the Jacobian dG/du of the component-wise residual G of that loop or its inverse (J^-1 J = I), symbolically - one wrong entry of a hand-inverted 3x3 Jacobian still converges (more slowly, to the tolerance) and no test looks at it', floor=4)
def r13(ctx, R):
    import sympy as sp
    repo = ctx.repo
    n_dec = 0
    for ci in _problems(repo):
        fn = ci.methods.get('solve_system')
        if fn is None or len(fn.args.args) < 3:
            continue
        for loop in [l for l in ast.walk(fn) if isinstance(l, (ast.While, ast.For))]:
            gs = [s for s in ast.walk(loop) if isinstance(s, ast.Assign) and len(s.targets) == 1 and isinstance(s.targets[0], ast.Name) and s.targets[0].id == 'g']
            if len(gs) != 1:
                continue
            lens = [len(c.elts) for c in ast.walk(fn) if isinstance(c, ast.List) and c.elts and not isinstance(c.elts[0], ast.List)]
            if not lens:
                continue
            k = lens[0]
            upd = [s.target.id for s in ast.walk(loop) if isinstance(s, ast.AugAssign) and isinstance(s.target, ast.Name) and s.target.id not in ('n', 'res', 'it', 'k', 'niter', 'newton_iter')]
            if not upd:
                continue
            uname = 'u' if 'u' in upd else upd[0]
            w = f'{ci.module.relpath}:{ci.name}.solve_system'
            c0 = f'{ci.name}.solve_system :: the hand-written Jacobian matrix is dG/du or its inverse'
            try:
                tr = _Components(fn, uname)
                local = {a: tr.visit(ast.parse(ast.unparse(b), mode='eval').body) for a, b in _single_locals(fn, ('g', 'dg', uname)).items() if a not in tr.env}
                G = _vec_sym(tr.visit(ast.parse(ast.unparse(gs[0].value), mode='eval').body), uname, local, k)
                cands = _matrix_candidates(loop, tr, local)
                sj = ci.methods.get('solve_jacobian')
                if sj is not None and any(isinstance(c, ast.Call) and ast.unparse(c.func) == 'self.solve_jacobian' for c in ast.walk(loop)) and len(sj.args.args) >= 4:
                    un = sj.args.args[3].arg
                    trj = _Components(sj, un)
                    lj = {a: trj.visit(ast.parse(ast.unparse(b), mode='eval').body) for a, b in _single_locals(sj, (un,)).items() if a not in trj.env}
                    # the parameter names of solve_jacobian stand for the arguments of the call: dt stays dt by convention of the contract
                    cands += [('solve_jacobian.' + nm, M) for nm, M in _matrix_candidates(sj, trj, lj)]
            except (_Unk, RecursionError) as e:
                R.note(c0, w, f'not decided: outside the vocabulary ({str(e)[:50]})')
                continue
            if not cands:
                continue
            us = [sp.Symbol(f'u_{j}') for j in range(k)]
            J = sp.Matrix(G).jacobian(us)
            for name, D in cands:
                if D.shape != J.shape:
                    continue
                R.fn(w)
                n_dec += 1
                direct = sp.simplify(D - J) == sp.zeros(*J.shape)
                inverse = direct or sp.simplify(D * J - sp.eye(k)) == sp.zeros(k, k)
                R.check(direct or inverse, f'{ci.name}.solve_system :: `{name}` is dG/du or (dG/du)^-1', w, 'D = J or D J = I for J = jacobian of the residual of the loop', 'neither' if not (direct or inverse) else ('J' if direct else 'J^-1'))
    if n_dec < 4:
        raise AnalysisError(f'C12.R13: only {n_dec} hand-written Jacobians decided')


@rule('C12', 'C12.R9', 'eval_f and the solver of one class embed the inner points in the SAME boundary values: where both prepare a scratch attribute of self (uext[0], uext[-1], ..), the entries with a fixed index are computed by the same expressions (found and repaired F29 on the semi-implicit Allen-Cahn front)', floor=3)
def r9(ctx, R):
    from ..inline import facts as _facts
    repo = ctx.repo
    n = 0
    for ci in _problems(repo):
        meths = {nm: f for nm, f in ci.methods.items() if nm == 'eval_f' or nm.startswith('solve_system')}
        if 'eval_f' not in meths or len(meths) < 2:
            continue
        prep = {}
        for nm, f in meths.items():
            d = {}
            try:
                fs = _facts(f)
            except Exception:  # noqa: BLE001
                continue
            for x in fs:
                if x[0] == 'store' and re.fullmatch(r'self\.\w+\[-?\d+\]', x[1]):
                    d[x[1]] = x[2]
            prep[nm] = d
        for nm in prep:
            if nm == 'eval_f':
                continue
            common = sorted(set(prep[nm]) & set(prep.get('eval_f', {})))
            if not common:
                continue
            n += 1
            w = f'{ci.module.relpath}:{ci.name}.{nm}'
            R.fn(w)
            diff = [f'{k}: eval_f `{prep["eval_f"][k][:60]}` vs {nm} `{prep[nm][k][:60]}`' for k in common if prep['eval_f'][k] != prep[nm][k]]
            R.check(not diff, f'{ci.name}.{nm} :: fixed-index entries {common} of the scratch data are prepared as in eval_f', w, 'identical expressions (same boundary values at the same time)', diff)
    if n < 3:
        raise AnalysisError(f'C12.R9: only {n} eval_f / solver pairs with common scratch entries found')
