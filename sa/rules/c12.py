"""C12 - problem classes honour the solver contract: purity clause (arguments are never written, results are fresh)."""

import ast
import re

from ..model import AnalysisError
from ..purity import Purity
from ..runner import rule

CONTRACT = re.compile(r'^(eval_f.*|solve_system.*|solve_jacobian|u_exact|apply_mass_matrix|build_f|boris_solver|fix_residual|eval_jacobian|get_non_linear_Jacobian)$')
RESULT = re.compile(r'^(eval_f.*|solve_system.*|solve_jacobian|build_f|boris_solver)$')
# documented output parameters (none in implementations/ today except the residual fixer, which exists to edit its argument)
OUTPUT_PARAMS = {('fix_residual', 'res'): 'fix_residual(res) is the documented in-place hook for boundary rows of the residual'}


def _problems(repo):
    base = repo.cls('pySDC/core/problem.py', 'Problem')
    out = [c for c in repo.subclasses(base) if repo.is_library(c)]
    # problem-like classes that do not derive from Problem but are used through the same contract
    return out


@rule('C12', 'C12.R1', 'argument purity: eval_f / solve_system* / u_exact / ... never write into an object they were handed (flow-sensitive alias/view analysis)', floor=240)
def r1(ctx, R):
    repo = ctx.repo
    for ci in _problems(repo):
        for name, fn in ci.methods.items():
            if not CONTRACT.match(name):
                continue
            w = f'{ci.module.relpath}:{ci.name}.{name}'
            R.fn(w)
            P = Purity(fn, resolver=lambda m, _ci=ci: (repo.resolve(_ci, m) or (None, None))[1])
            hits = [h for h in P.hits if h.params()]
            if not hits:
                R.ok(f'{ci.name}.{name} :: no in-place write reaches a parameter', w, found=f'{len(P.params)} parameter(s) tracked; {len(P.aug_alias)} rebinding augmented assignment(s) on aliases (value-semantic, see C13.R1)')
                continue
            for h in hits:
                for p in h.params():
                    if (name, p) in OUTPUT_PARAMS:
                        R.exc(f'{ci.name}.{name} :: writes {h.target} (parameter {p})', w, OUTPUT_PARAMS[(name, p)])
                    else:
                        R.bad(f'{ci.name}.{name} :: writes {h.target} (parameter {p})', w, 'arguments are read-only; work on a copy / fresh allocation', f'{h.detail}: `{ast.unparse(h.node)[:90]}`')


@rule('C12', 'C12.R2', 'fresh result: eval_f / solve_system* return an object allocated in the call, never an argument, a view of one, or a cached attribute of self', floor=175)
def r2(ctx, R):
    repo = ctx.repo
    prel = 'pySDC/core/problem.py'
    base = repo.cls(prel, 'Problem')
    for prop, ctor in (('u_init', 'self.dtype_u(self.init)'), ('f_init', 'self.dtype_f(self.init)')):
        fn = base.methods.get(prop)
        if fn is None:
            raise AnalysisError(f'Problem.{prop} vanished')
        rets = [ast.unparse(s.value) for s in ast.walk(fn) if isinstance(s, ast.Return) and s.value is not None]
        R.check(rets == [ctor], f'Problem.{prop} :: allocates on every access', f'{prel}:Problem.{prop}', ctor, rets)
    for ci in _problems(repo):
        for name, fn in ci.methods.items():
            if not RESULT.match(name):
                continue
            w = f'{ci.module.relpath}:{ci.name}.{name}'
            P = Purity(fn, track_self=True)
            if not P.returns:
                continue
            R.fn(w)
            bad = [(s, [t for t in tags if t[0] != 'fresh']) for s, tags in P.returns]
            bad = [(s, d) for s, d in bad if d]
            if not bad:
                R.ok(f'{ci.name}.{name} :: every returned value is fresh', w, found=f'{len(P.returns)} return(s)')
            for s, d in bad:
                R.bad(f'{ci.name}.{name} :: returns `{ast.unparse(s.value)[:40]}`', w, 'a value allocated in this call', f'may be {sorted(d)}')
