"""C12 - problem classes honour the solver contract: purity clause (arguments are never written, results are fresh)."""

import ast
import re

from ..model import AnalysisError
from ..purity import Purity
from ..runner import rule

CONTRACT = re.compile(r'^(eval_f.*|solve_system.*|solve_jacobian|u_exact|apply_mass_matrix|build_f|boris_solver|fix_residual|eval_jacobian|get_non_linear_Jacobian)$')
RESULT = re.compile(r'^(eval_f.*|solve_system.*|solve_jacobian|build_f|boris_solver)$')
# documented output parameters (none in implementations/ today except the residual fixer, which exists to edit its argument)
OUTPUT_PARAMS = {('fix_residual', 'res'): 'fix_residual(res) is the documented in-place hook for boundary rows of the residual'}


def _problems(repo):
    base = repo.cls('pySDC/core/problem.py', 'Problem')
    out = [c for c in repo.subclasses(base) if repo.is_library(c)]
    # problem-like classes that do not derive from Problem but are used through the same contract
    return out


@rule('C12', 'C12.R1', 'argument purity: eval_f / solve_system* / u_exact / ... never write into an object they were handed (flow-sensitive alias/view analysis)', floor=240)
def r1(ctx, R):
    repo = ctx.repo
    for ci in _problems(repo):
        for name, fn in ci.methods.items():
            if not CONTRACT.match(name):
                continue
            w = f'{ci.module.relpath}:{ci.name}.{name}'
            R.fn(w)
            P = Purity(fn, resolver=lambda m, _ci=ci: (repo.resolve(_ci, m) or (None, None))[1])
            hits = [h for h in P.hits if h.params()]
            if not hits:
                R.ok(f'{ci.name}.{name} :: no in-place write reaches a parameter', w, found=f'{len(P.params)} parameter(s) tracked; {len(P.aug_alias)} rebinding augmented assignment(s) on aliases (value-semantic, see C13.R1)')
                continue
            for h in hits:
                for p in h.params():
                    if (name, p) in OUTPUT_PARAMS:
                        R.exc(f'{ci.name}.{name} :: writes {h.target} (parameter {p})', w, OUTPUT_PARAMS[(name, p)])
                    else:
                        R.bad(f'{ci.name}.{name} :: writes {h.target} (parameter {p})', w, 'arguments are read-only; work on a copy / fresh allocation', f'{h.detail}: `{ast.unparse(h.node)[:90]}`')


@rule('C12', 'C12.R2', 'fresh result: eval_f / solve_system* return an object allocated in the call, never an argument, a view of one, or a cached attribute of self', floor=175)
def r2(ctx, R):
    repo = ctx.repo
    prel = 'pySDC/core/problem.py'
    base = repo.cls(prel, 'Problem')
    for prop, ctor in (('u_init', 'self.dtype_u(self.init)'), ('f_init', 'self.dtype_f(self.init)')):
        fn = base.methods.get(prop)
        if fn is None:
            raise AnalysisError(f'Problem.{prop} vanished')
        rets = [ast.unparse(s.value) for s in ast.walk(fn) if isinstance(s, ast.Return) and s.value is not None]
        R.check(rets == [ctor], f'Problem.{prop} :: allocates on every access', f'{prel}:Problem.{prop}', ctor, rets)
    for ci in _problems(repo):
        for name, fn in ci.methods.items():
            if not RESULT.match(name):
                continue
            w = f'{ci.module.relpath}:{ci.name}.{name}'
            P = Purity(fn, track_self=True)
            if not P.returns:
                continue
            R.fn(w)
            bad = [(s, [t for t in tags if t[0] != 'fresh']) for s, tags in P.returns]
            bad = [(s, d) for s, d in bad if d]
            if not bad:
                R.ok(f'{ci.name}.{name} :: every returned value is fresh', w, found=f'{len(P.returns)} return(s)')
            for s, d in bad:
                R.bad(f'{ci.name}.{name} :: returns `{ast.unparse(s.value)[:40]}`', w, 'a value allocated in this call', f'may be {sorted(d)}')


def _add_terms(n):
    if isinstance(n, ast.BinOp) and isinstance(n.op, ast.Add):
        return _add_terms(n.left) + _add_terms(n.right)
    return [n]


def _per_index_form(t):
    """(k, text with every `X[k]` replaced by `X[#]`) if the term mentions exactly one constant integer subscript value k"""
    import copy
    ks = {s.slice.value for s in ast.walk(t) if isinstance(s, ast.Subscript) and isinstance(s.slice, ast.Constant) and isinstance(s.slice.value, int) and not isinstance(s.slice.value, bool)}
    if len(ks) != 1:
        return None
    k = next(iter(ks))

    class T(ast.NodeTransformer):
        def visit_Subscript(self, s):
            self.generic_visit(s)
            if isinstance(s.slice, ast.Constant) and s.slice.value == k:
                s.slice = ast.Name('#', ast.Load())
            return s

    return k, ast.unparse(T().visit(copy.deepcopy(t)))


def dimension_sums(tree):
    """maximal `+` chains of >= 3 terms that are written once per dimension index (each term mentions one distinct constant index)"""
    inner = set()
    out = []
    for node in ast.walk(tree):
        if isinstance(node, ast.BinOp) and isinstance(node.op, ast.Add) and id(node) not in inner:
            for x in ast.walk(node):
                if x is not node and isinstance(x, ast.BinOp) and isinstance(x.op, ast.Add):
                    inner.add(id(x))
            ts = _add_terms(node)
            forms = [_per_index_form(t) for t in ts]
            if len(ts) >= 3 and all(f is not None for f in forms) and len({k for k, _ in forms}) == len(ts):
                out.append((node, forms))
    return out


_CONTROL_SUM = "rho = (2.0 - 2.0 * c(f[0] * dx)) / dx**2 + (2.0 - 2.0 * c(f[1] * dx)) + (2.0 - 2.0 * c(f[2] * dx)) / dx**2"


@rule('C12', 'C12.R3', 'closed-form solutions and operators written once per dimension treat every dimension alike: in a sum of >= 3 per-index terms no single term deviates from the form all the others share', floor=2)
def r3(ctx, R):
    import collections
    repo = ctx.repo
    ctl = dimension_sums(ast.parse(_CONTROL_SUM))
    hit = bool(ctl) and collections.Counter(f for _, f in ctl[0][1]).most_common()[-1][1] == 1 and len(set(f for _, f in ctl[0][1])) == 2
    R.check(hit, 'positive control :: the embedded example (a decay rate whose middle term lacks / dx**2) is recognised as one deviating term', 'sa/rules/c12.py:_CONTROL_SUM', 'one deviating term among three', [f for _, f in ctl[0][1]] if ctl else 'no per-dimension sum found')
    for m in repo.modules.values():
        if 'problem_classes' not in m.relpath or not repo.is_library(m):
            continue
        for node, forms in dimension_sums(m.tree):
            cnt = collections.Counter(f for _, f in forms)
            w = f'{m.relpath}:{node.lineno}'
            fn = next((f.name for f in ast.walk(m.tree) if isinstance(f, ast.FunctionDef) and f.lineno <= node.lineno <= f.end_lineno), '?')
            c = f'{m.relpath.split("/")[-1]}:{fn} :: per-dimension sum `{cnt.most_common(1)[0][0][:60]}` ({len(forms)} terms)'
            if len(cnt) == 1:
                R.ok(c, w, found='all terms share one form')
            elif len(cnt) == 2 and cnt.most_common()[-1][1] == 1 and len(forms) >= 3:
                dev = cnt.most_common()[-1][0]
                k = next(k for k, f in forms if f == dev)
                R.bad(c, w, f'every term of the form {cnt.most_common(1)[0][0]}', f'the term for index {k} is {dev}')
            # sums whose terms all differ are written per dimension on purpose (different offsets / amplitudes): not judged
