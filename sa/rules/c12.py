"""rules for c12 (under construction)"""
