"""rules for c13 (under construction)"""
