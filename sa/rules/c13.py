"""C13 - data types have value semantics; runs never corrupt caller or logged data (structural clauses)."""

import ast
import re

from ..cfg import FuncCFG, walk_no_nested
from ..model import AnalysisError, ClassInfo, qual
from ..norm import Normalizer
from ..purity import Purity
from ..runner import rule
from .. import facts

DT = 'pySDC/implementations/datatype_classes/'
INPLACE_DUNDERS = {'__iadd__', '__isub__', '__imul__', '__itruediv__', '__ifloordiv__', '__imod__', '__ipow__', '__imatmul__', '__iand__', '__ior__', '__ixor__', '__ilshift__', '__irshift__'}
BINARY_DUNDERS = {'__add__', '__sub__', '__mul__', '__rmul__', '__radd__', '__rsub__', '__truediv__', '__neg__'}

POSITIVE_CONTROL = '''
class bad_mesh:
    def __iadd__(self, other):
        self.values += other.values
        return self
    def __add__(self, other):
        self.values = self.values + other.values
        return self
'''


def _datatype_classes(repo):
    out = []
    for m in repo.modules.values():
        if m.relpath.startswith(DT) or m.relpath == 'pySDC/projects/DAE/misc/meshDAE.py':
            for cn in m.classes:
                out.append(repo.classes[f'{m.name}.{cn}'])
            # nested classes (particles.position ...)
            for cn, node in m.classes.items():
                for sub in node.body:
                    if isinstance(sub, ast.ClassDef):
                        out.append(('nested', m, node, sub))
    return out


def _inplace_dunders(classnode):
    return [f.name for f in classnode.body if isinstance(f, ast.FunctionDef) and f.name in INPLACE_DUNDERS]


def _self_stores(fn):
    """stores into attributes / items of `self` or of another parameter inside a method"""
    params = [a.arg for a in fn.args.args]
    out = []
    for s in walk_no_nested(fn):
        tg = []
        if isinstance(s, ast.Assign):
            tg = s.targets
        elif isinstance(s, ast.AugAssign):
            tg = [s.target]
        for t in tg:
            root = t
            while isinstance(root, (ast.Attribute, ast.Subscript)):
                root = root.value
            if isinstance(root, ast.Name) and root.id in params and isinstance(t, (ast.Attribute, ast.Subscript)):
                out.append(ast.unparse(t))
    return out


@rule('C13', 'C13.R1', 'datatypes: no in-place operator, ufuncs never write into `out`, binary operators allocate, copy constructors copy, abs is the max norm', floor=65)
def r1(ctx, R):
    repo = ctx.repo
    # positive control: the detector must fire on an embedded offender
    pc = ast.parse(POSITIVE_CONTROL).body[0]
    if _inplace_dunders(pc) != ['__iadd__'] or not _self_stores(pc.body[1]):
        raise AnalysisError('C13.R1 positive control not detected - the rule is broken')
    n_cls = 0
    for item in _datatype_classes(repo):
        if isinstance(item, tuple):
            _, m, outer, node = item
            name, rel = f'{outer.name}.{node.name}', m.relpath
        else:
            node, name, rel = item.node, item.name, item.module.relpath
        n_cls += 1
        w = f'{rel}:{name}'
        R.fn(w)
        d = _inplace_dunders(node)
        R.check(not d, f'{name} :: defines no in-place operator (x += y must rebind, never write into x)', w, 'no __iadd__/__isub__/...', d)
        for f in node.body:
            if not isinstance(f, ast.FunctionDef):
                continue
            if f.name == '__array_ufunc__':
                kwonly = [a.arg for a in f.args.kwonlyargs]
                fwd = [ast.unparse(c) for c in ast.walk(f) if isinstance(c, ast.Call) and any(k.arg == 'out' or (k.arg is None and ast.unparse(k.value) == 'out') for k in c.keywords)]
                uses = [n for n in ast.walk(f) if isinstance(n, ast.Name) and n.id == 'out']
                R.check('out' in kwonly and not fwd and not uses, f'{name}.__array_ufunc__ :: binds `out` by name and drops it', w, 'out=None in the signature, never forwarded', {'kwonly': kwonly, 'forwarded': fwd[:1], 'uses': len(uses)})
                rets = [ast.unparse(s.value) for s in ast.walk(f) if isinstance(s, ast.Return) and s.value is not None]
                call = [c for c in ast.walk(f) if isinstance(c, ast.Call) and re.fullmatch(r'super\(.*\)\.__array_ufunc__', ast.unparse(c.func))]
                okv = len(call) == 1 and any(isinstance(a, ast.Starred) and ast.unparse(a.value) == 'args' for a in call[0].args)
                R.check(okv, f'{name}.__array_ufunc__ :: the base ufunc runs on plain-array views of the inputs (fresh result, viewed back as the datatype)', w, 'super().__array_ufunc__(ufunc, method, *args, **kwargs).view(type(self))', rets)
            if f.name in BINARY_DUNDERS:
                stores = [s for s in _self_stores(f) if re.match(r'(self|other)\b', s)]
                R.check(not stores, f'{name}.{f.name} :: does not store into an operand', w, 'no store to self.* / other.*', stores)
                rets = [s.value for s in ast.walk(f) if isinstance(s, ast.Return) and s.value is not None]
                bad = [ast.unparse(r) for r in rets if isinstance(r, ast.Name) and r.id in ('self', 'other')]
                R.check(not bad, f'{name}.{f.name} :: returns a new object', w, 'never self/other', bad)
            if f.name == '__abs__':
                defs = {ast.unparse(t): ast.unparse(s_.value) for s_ in ast.walk(f) if isinstance(s_, ast.Assign) for t in s_.targets}
                ok = False
                for c in ast.walk(f):
                    if isinstance(c, ast.Call):
                        fn_ = ast.unparse(c.func)
                        if re.search(r'(^|\.)a?max$', fn_) and c.args:
                            arg = ast.unparse(c.args[0])
                            srcs = [arg] + [defs.get(n.id, '') for n in ast.walk(c.args[0]) if isinstance(n, ast.Name)]
                            if any('abs' in x for x in srcs):
                                ok = True
                        if re.search(r'(^|\.)norm$', fn_):
                            ok = True
                R.check(ok, f'{name}.__abs__ :: maximum of element moduli (or a library norm), never a signed reduction', w, 'max(|x_i|) / norm(..)', ast.unparse(f)[-120:].replace('\n', ' '))
    # copy constructors
    m = repo.cls(DT + 'mesh.py', 'mesh')
    new = m.methods.get('__new__')
    N = Normalizer(new, inline_scalars=False)
    cp = [c for c in N.contribs if c.guards and c.guards[0] == 'isinstance(init, mesh)']
    ok = any(c.target == 'obj' and c.rhs.startswith('np.ndarray.__new__(cls, shape=init.shape, dtype=init.dtype') for c in cp) and any(c.target == 'obj[:]' and c.rhs == 'init[:]' for c in cp)
    R.check(ok, 'mesh.__new__ :: copy construction allocates a new array and copies the values', f'{DT}mesh.py:mesh.__new__', 'obj = ndarray.__new__(..); obj[:] = init[:]', [c.describe() for c in cp])
    p = repo.cls(DT + 'particles.py', 'particles')
    N = Normalizer(p.methods['__init__'], inline_scalars=False)
    cp = {c.target: c.rhs for c in N.contribs if c.guards and c.guards[0] == 'isinstance(init, type(self))'}
    want = {'self.pos': 'particles.position(init.pos)', 'self.vel': 'particles.velocity(init.vel)', 'self.q': 'init.q.copy()', 'self.m': 'init.m.copy()'}
    R.check(cp == want, 'particles.__init__ :: copy construction builds new position/velocity meshes and copies q, m', f'{DT}particles.py:particles.__init__', want, cp)
    if n_cls < 10:
        raise AnalysisError(f'C13.R1: only {n_cls} datatype classes found')


RUNTIME = ('pySDC/core/', 'controller_classes', 'sweeper_classes', 'convergence_controller_classes', 'transfer_classes', '/hooks/', 'projects/DAE/sweepers')


def _runtime_functions(repo):
    for m, ci, fn in repo.all_functions():
        if any(x in m.relpath for x in RUNTIME):
            yield m, ci, fn


def _slot_analysis(ctx):
    def build():
        out = []
        for m, ci, fn in _runtime_functions(ctx.repo):
            P = Purity(fn, slots=True)
            out.append((m, ci, fn, P))
        return out
    return ctx.memo('slot_purity', build)


@rule('C13', 'C13.R2', 'inventory: augmented assignments whose target aliases a level slot (correct only because datatypes have value semantics)', floor=1)
def r2(ctx, R):
    n = 0
    for m, ci, fn, P in _slot_analysis(ctx):
        seen = set()
        for s, name, tags in P.aug_alias:
            srcs = sorted(t[1][5:] for t in tags if t[0] == 'param' and t[1].startswith('slot:'))
            if not srcs or (id(s)) in seen:
                continue
            seen.add(id(s))
            n += 1
            R.ok(f'{qual(m, ci, fn).split(":")[1]} :: `{name} op= ...` where {name} aliases {srcs[0]}', qual(m, ci, fn), found='rebinding by C13.R1 (a datatype with __iadd__ would overwrite the slot)')
    if n == 0:
        raise AnalysisError('C13.R2: the alias-augmented-assignment inventory is empty (RungeKuttaIMEX.update_nodes `rhs = lvl.u[0]; rhs += ..` is the confirmed instance)')


# in-place writes into level data that are correct because the target object is fresh in the current step (table B4)
B4 = {
    ('InterpolateBetweenRestarts.post_spread_processing', 'level.u[m][:]'): 'slot objects were allocated in this SPREAD handler (init_step copy for m=0, predict for m>=1) before post_spread_processing runs',
    ('InterpolateBetweenRestarts.post_spread_processing', 'level.f[m][:]'): 'same: f slots allocated by predict in the same handler',
    ('SemiImplicitDAE.update_nodes', 'L.f[m].diff[:]'): 'slot allocated by predict (dtype_f(init)), never shared with another slot',
    ('SemiImplicitDAE.update_nodes', 'L.u[m].alg[:]'): 'slot allocated by predict (dtype_u(L.u[0]) / dtype_u(init)), never shared',
    ('SemiImplicitDAE.update_nodes', 'L.u[m + 1].diff[:]'): 'same',
    ('SemiImplicitDAEMPI.update_nodes', 'L.f[self.rank + 1].diff[:]'): 'same (one node per rank)',
    ('SemiImplicitDAEMPI.update_nodes', 'L.u[self.rank + 1].alg[:]'): 'same',
    ('SemiImplicitDAEMPI.update_nodes', 'L.u[self.rank + 1].diff[:]'): 'same',
    ('FullyImplicitDAEMPI.update_nodes', 'L.f[self.rank + 1][:]'): 'slot allocated by predict',
    ('RungeKuttaDAE.update_nodes', 'lvl.f[m + 1][:]'): 'slot allocated by predict',
    ('RungeKuttaDAE.update_nodes', 'lvl.u[m + 1][:]'): 'slot allocated by predict',
    ('boris_2nd_order.update_nodes', 'L.u[m + 1].pos'): 'attribute rebinding on the slot object allocated by predict; prolong rebinds slots (+=)',
    ('boris_2nd_order.update_nodes', 'L.u[m + 1].vel'): 'same',
    ('controller_MPI.recv', 'target.u[0]'): 'u[0] is the copy made by init_step at block start (or a previous receive); never the caller\'s object',
    ('controller_MPI.run', 'self.S.levels[0].u[0]'): 'the block is over; the u[0] objects are dropped by reset_level in the next restart_block',
    ('SweeperMPI.communicate_tau_correction_for_full_interval', 'L.tau[-1]'): 'allocated (u_init) on non-root ranks in the same function; root broadcasts its own tau',
}


def _dominating_alloc(fn, hit_node_stmt, slot_text):
    """an assignment `slot = <constructor>(...)` in the same function that dominates the in-place write"""
    cfg = FuncCFG(fn)
    target_node = None
    for n, s in cfg.stmt_of.items():
        if s is hit_node_stmt or hit_node_stmt in list(ast.walk(s)) and not isinstance(s, (ast.For, ast.While, ast.If, ast.With, ast.Try)):
            target_node = n
            break
    if target_node is None:
        return False
    allocs = []
    for n, s in cfg.stmt_of.items():
        if isinstance(s, ast.Assign) and any(ast.unparse(t) == slot_text for t in s.targets) and isinstance(s.value, ast.Call):
            f = ast.unparse(s.value.func)
            if re.search(r'(dtype_u|dtype_f|u_init|f_init)$', f) and n != target_node:
                allocs.append(n)
    # every path from the entry to the write passes through an allocating assignment of that slot
    return bool(allocs) and cfg.must_pass('ENTRY', target_node, allocs)


@rule('C13', 'C13.R3', 'in-place writes into level data target an object that is fresh in the current step (allocation dominates in the same function, or table B4)', floor=28)
def r3(ctx, R):
    seen_table = set()
    for m, ci, fn, P in _slot_analysis(ctx):
        fname = (ci.name + '.' if ci else '') + fn.name
        done = set()
        for h in P.hits:
            srcs = sorted(t[1][5:] for t in h.tags if t[0] == 'param' and t[1].startswith('slot:'))
            if not srcs:
                continue
            key = (fname, h.target)
            if key in done:
                continue
            done.add(key)
            w = qual(m, ci, fn)
            c = f'{fname} :: in-place write `{h.target}` ({h.detail})'
            stmt = h.node
            if _dominating_alloc(fn, stmt, srcs[0]):
                R.ok(c, w, found=f'{srcs[0]} is assigned from a datatype constructor earlier on every path of this function')
            elif key in B4:
                seen_table.add(key)
                R.exc(c, w, B4[key])
            else:
                R.bad(c, w, 'target allocated in this step before the write (dominating constructor assignment, or an entry of table B4 with a reason)', f'{srcs[0]} may be an object that escaped (logged / returned / caller-owned)')
    missing = set(B4) - seen_table
    if missing:
        raise AnalysisError(f'C13.R3: tabled in-place sites not found any more: {sorted(missing)[:3]}')


def _reaches(repo, D, method, target_fn):
    """does D.<method>() execute target_fn, directly or through a chain of super().<method>() calls along the MRO?"""
    mro = [c for c in D.mro if isinstance(c, ClassInfo)]
    i = 0
    while i < len(mro):
        c = mro[i]
        if method in c.methods:
            fn = c.methods[method]
            if fn is target_fn:
                return True
            if not any(isinstance(k, ast.Call) and ast.unparse(k.func) == f'super().{method}' for k in ast.walk(fn)):
                return False
        i += 1
    return False


@rule('C13', 'C13.R4', 'escape boundaries copy; uend is only ever rebound to a fresh value', floor=50)
def r4(ctx, R):
    repo = ctx.repo
    # copies at the boundaries
    rel = 'pySDC/implementations/convergence_controller_classes/store_uold.py'
    N = Normalizer(repo.func(rel, 'StoreUOld.post_iteration_processing'), inline_scalars=False)
    st = [c for c in N.contribs if c.target.startswith('L.uold[')]
    ok = sorted(c.rhs for c in st) == sorted(['P.dtype_u(L.u[i1 - 1])', 'None'])
    R.check(ok, 'StoreUOld :: uold[i] = dtype_u(u[i]) (a copy, not the iterate itself)', f'{rel}:StoreUOld.post_iteration_processing', 'L.uold[i] = L.prob.dtype_u(L.u[i])', [c.describe() for c in st])
    # the caller's initial value: copied through the datatype on every path, and never written through
    rel = 'pySDC/core/step.py'
    fn = repo.func(rel, 'Step.init_step')
    R.fn(f'{rel}:Step.init_step')
    from ..purity import Purity
    N = Normalizer(fn)
    st = [c for c in N.contribs if c.target == 'self.levels[0].u[0]']
    p0 = fn.args.args[1].arg
    ok = len(st) == 1 and st[0].op == '=' and st[0].rhs == f'self.levels[0].prob.dtype_u({p0})' and not st[0].guards
    R.check(ok, "Step.init_step :: the caller's initial value is copied (levels[0].u[0] = dtype_u(u0), unconditionally) - the run never holds the caller's object", f'{rel}:Step.init_step', f'self.levels[0].u[0] = P.dtype_u({p0})', [c.describe() for c in st])
    Pu = Purity(fn)
    R.check(not [h for h in Pu.hits if h.params()], "Step.init_step :: no in-place write into the caller's object", f'{rel}:Step.init_step', 'no store through u0', [h.target for h in Pu.hits if h.params()])
    base = repo.cls('pySDC/core/sweeper.py', 'Sweeper')
    for ci in [base] + [c for c in repo.overriders(base, 'predict') if repo.is_library(c) and c is not base]:
        fn = ci.methods.get('predict')
        if fn is None:
            continue
        w = f'{ci.module.relpath}:{ci.name}.predict'
        R.fn(w)
        N = Normalizer(fn)
        st = [c for c in N.contribs if re.match(r'(L|lvl)\.u\[', c.target) and c.op == '=' and not c.target.endswith('[0]')]
        bad = [c.describe()[:100] for c in st if not (c.call and re.search(r'(dtype_u|u_init)$', c.call[0])) and c.rhs not in ('P.u_init', 'None') and not re.search(r'u_init|dtype_u|u_exact|zeros', c.rhs or '')]
        if not st:
            R.exc(f'{ci.name}.predict :: no node slot assigned here', w, 'delegates / fills slots in place after a super() call')
            continue
        R.check(not bad, f'{ci.name}.predict :: every node slot gets its own object (dtype_u(..)), never u[0] itself', w, 'L.u[m] = P.dtype_u(L.u[0]) | P.dtype_u(init, val=..)', bad)
    # every writer of <level>.uend assigns a fresh value
    W = ctx.memo('attr_writes', lambda: facts.attr_writes(repo))
    n = 0
    for x in W:
        if x.attr != 'uend' or not any(k in x.module.relpath for k in RUNTIME):
            continue
        n += 1
        rhs = x.rhs()
        c = f'{(x.cls.name + ".") if x.cls else ""}{x.fn.name} :: {x.target} {x.op} {rhs[:50]}'
        if x.op == '=':
            fresh = rhs == 'None' or re.match(r'^[\w\.]*(dtype_u|u_init)\b', rhs) is not None or re.match(r'^P\.dtype_u\(', rhs) is not None
            if not fresh and re.fullmatch(r'[\w\.]+\.u\[(-1|0)\]', rhs):
                # the alias is safe only if no sweeper that ends up in this function overwrites node values IN PLACE in a later sweep of the same step
                unsafe = []
                if x.cls is not None and x.fn.name == 'compute_end_point':
                    rk = repo.cls('pySDC/implementations/sweeper_classes/Runge_Kutta.py', 'RungeKutta')
                    for D in repo.subclasses(x.cls):
                        if not any(k in D.module.relpath for k in RUNTIME):
                            continue
                        r1 = repo.resolve(D, 'compute_end_point')
                        r2 = repo.resolve(D, 'update_nodes')
                        if r1 is None or r2 is None or not _reaches(repo, D, 'compute_end_point', x.fn):
                            continue
                        inplace = sorted(t for (f, t) in B4 if f == f'{r2[0].name}.update_nodes' and '.u[' in t)
                        if not inplace:
                            continue
                        if repo.is_subclass(D, rk):
                            pr = repo.resolve(D, 'predict')
                            realloc = pr is not None and any(isinstance(a, ast.Assign) and re.fullmatch(r'\w+\.u\[m\]', ast.unparse(a.targets[0])) and re.search(r'dtype_u\(', ast.unparse(a.value)) for a in ast.walk(pr[1]))
                            if realloc:
                                continue
                        unsafe.append(f'{D.name} (update_nodes writes {inplace[0]} in place)')
                if unsafe:
                    R.bad(c, x.qual, 'uend = <datatype constructor>(..) wherever a sweeper sharing this method overwrites node values in place (a logged/returned uend would change in the next sweep)', unsafe)
                    continue
                R.exc(c, x.qual, 'uend is rebound to a node slot object of the same level (alias, no copy): no sweeper resolving to this method writes node values in place between two sweeps of a step (Runge-Kutta sweepers do, but sweep once per step and their predict re-allocates every node slot)')
                continue
            R.check(fresh, c, x.qual, 'uend = <datatype constructor>(..) | None', rhs)
        elif x.op in ('Add=', 'Sub='):
            R.ok(c, x.qual, found='augmented assignment on the attribute: rebinding by C13.R1')
        else:
            R.bad(c, x.qual, 'plain or additive rebinding', x.op)
    if n < 20:
        raise AnalysisError(f'C13.R4: only {n} writers of uend found')
    # the serial run returns / carries uend by reference: safe only with R3 (no in-place write into uend outside the fresh-in-function sites)
    rel = 'pySDC/implementations/hooks/log_solution.py'
    fn = repo.func(rel, 'LogSolution.post_step')
    vals = [ast.unparse(k.value) for c in ast.walk(fn) if isinstance(c, ast.Call) and isinstance(c.func, ast.Attribute) and c.func.attr == 'add_to_stats' for k in c.keywords if k.arg == 'value']
    R.check(vals == ['L.uend'], 'LogSolution.post_step :: logs L.uend by reference (kept safe by R3/R4: nobody writes into it afterwards)', f'{rel}:LogSolution.post_step', ['L.uend'], vals)


COPYING = ('ascontiguousarray', 'asfortranarray', 'array', 'copy', 'deepcopy', 'require', 'astype', 'flatten', 'tolist')


@rule('C13', 'C13.R5', 'multi-component meshes expose WRITABLE VIEWS of one buffer: the component accessor returns a basic-index view of self (no copying call in between), for the component index of the requested name, and refuses unknown names / unexpected shapes', floor=3)
def r5(ctx, R):
    repo = ctx.repo
    rel = DT + 'mesh.py'
    fn = repo.func(rel, 'MultiComponentMesh.__getattr__')
    w = f'{rel}:MultiComponentMesh.__getattr__'
    R.fn(w)
    rets = [s.value for s in ast.walk(fn) if isinstance(s, ast.Return) and s.value is not None]
    R.check(len(rets) == 1 and ast.unparse(rets[0]) == 'self[self.components.index(name)].view(mesh)', 'MultiComponentMesh.__getattr__ :: returns self[<index of the component>].view(mesh)', w, 'self[self.components.index(name)].view(mesh)', [ast.unparse(r) for r in rets])
    calls = sorted({c.func.attr if isinstance(c.func, ast.Attribute) else getattr(c.func, 'id', '?') for r in rets for c in ast.walk(r) if isinstance(c, ast.Call)})
    R.check(not (set(calls) & set(COPYING)), 'MultiComponentMesh.__getattr__ :: no copying call between the buffer and the object handed out (a write through the component must reach the parent, also for sliced / strided parents)', w, 'only indexing and .view()', calls)
    raises = [ast.unparse(s.exc)[:40] for s in ast.walk(fn) if isinstance(s, ast.Raise) and s.exc is not None]
    R.check(len(raises) == 2 and all(r.startswith('AttributeError') for r in raises), 'MultiComponentMesh.__getattr__ :: unknown names and unexpected shapes raise AttributeError', w, 'two raising arms', raises)


def _component_names(repo):
    """component names of every MultiComponentMesh subclass of the library: class name -> tuple of names"""
    base = repo.cls(DT + 'mesh.py', 'MultiComponentMesh')
    out = {}
    for c in repo.subclasses(base):
        for k in c.mro:
            body = getattr(getattr(k, 'node', None), 'body', [])
            comps = [s.value for s in body if isinstance(s, ast.Assign) and any(isinstance(t, ast.Name) and t.id == 'components' for t in s.targets)]
            if comps and isinstance(comps[0], (ast.List, ast.Tuple)):
                out[c.name] = tuple(e.value for e in comps[0].elts if isinstance(e, ast.Constant))
                break
    return out


def _class_attr(ci, name):
    for k in ci.mro:
        for s in getattr(getattr(k, 'node', None), 'body', []):
            if isinstance(s, ast.Assign) and any(isinstance(t, ast.Name) and t.id == name for t in s.targets):
                return s.value
    return None


def _inout_helper(ci, stmt, target, resolve):
    v = stmt.value
    if not (isinstance(v, ast.Call) and isinstance(v.func, ast.Attribute) and isinstance(v.func.value, ast.Name) and v.func.value.id == 'self'):
        return False
    pos = [i for i, a in enumerate(v.args) if ast.unparse(a) == ast.unparse(target)]
    r = resolve(ci, v.func.attr)
    if len(pos) != 1 or not r:
        return False
    fn = r[1]
    params = [a.arg for a in fn.args.args][1:]
    if pos[0] >= len(params):
        return False
    rets = [x.value for x in ast.walk(fn) if isinstance(x, ast.Return)]
    return bool(rets) and all(isinstance(x, ast.Name) and x.id == params[pos[0]] for x in rets) and not any(isinstance(a, ast.Assign) and any(isinstance(t, ast.Name) and t.id == params[pos[0]] for t in a.targets) for a in ast.walk(fn))


def component_rebinds(ci, comps_of, resolve=None):
    """(method, lineno, text) of every `obj.<component> = value` in a problem class whose dtype_u / dtype_f is a multi-component mesh"""
    names = set()
    for slot in ('dtype_u', 'dtype_f'):
        v = _class_attr(ci, slot)
        if isinstance(v, ast.Name) and v.id in comps_of:
            names |= set(comps_of[v.id])
    hits = []
    if not names:
        return names, hits
    for mname, fn in ci.methods.items():
        for s in ast.walk(fn):
            if isinstance(s, ast.Assign):
                for t in s.targets:
                    if isinstance(t, ast.Attribute) and t.attr in names and isinstance(t.value, ast.Name) and t.value.id != 'self':
                        if resolve is not None and _inout_helper(ci, s, t, resolve):
                            continue  # `f.c = self.helper(.., f.c, ..)` where the helper returns that very parameter: the name is rebound to its own view
                        hits.append((mname, s.lineno, ast.unparse(s)[:90]))
    return names, hits


@rule('C13', 'C13.R6', 'components are written THROUGH their views, never rebound: in a problem class whose dtype_u / dtype_f is a multi-component mesh (imex_mesh, comp2_mesh, ..), `f.impl = value` creates an instance attribute that shadows the component accessor while the buffer stays as allocated - the sweeper that reads `f.impl` sees the value, every copy (`dtype_f(f)`, fold/uold, initial_guess="copy"), every arithmetic result and every transfer sees the untouched buffer; the store must be `f.impl[:] = value`', floor=25)
def r6(ctx, R):
    from ..model import Repo
    big = ctx.memo('repo_with_projects', lambda: Repo(ctx.repo.root, extra_dirs=('pySDC/projects',)))
    comps_of = _component_names(big)
    if not {'imex_mesh', 'comp2_mesh'} <= set(comps_of):
        raise AnalysisError(f'C13.R6: component tables of imex_mesh / comp2_mesh not found ({sorted(comps_of)})')
    base = big.cls('pySDC/core/problem.py', 'Problem')
    n = 0
    for ci in big.subclasses(base):
        names, hits = component_rebinds(ci, comps_of, big.resolve)
        if not names:
            continue
        n += 1
        w = f'{ci.module.relpath}:{ci.name}'
        R.fn(w)
        by = {}
        for m, line, text in hits:
            by.setdefault(m, []).append(text)
        if not by:
            R.ok(f'{ci.name} :: no method rebinds a component ({", ".join(sorted(names))}) of its multi-component data', w, found='component stores are subscript stores')
        for m, texts in sorted(by.items()):
            R.bad(f'{ci.name}.{m} :: components are stored through their views', f'{ci.module.relpath}:{ci.name}.{m}', 'f.<component>[:] = value', texts)
    if n < 25:
        raise AnalysisError(f'C13.R6: only {n} problem classes with multi-component data found')
