"""C04 - ONLY the structural clauses about the Runge-Kutta sweepers and the order-0 start: the stage equations and the primary /
embedded end points are the ones a Butcher tableau defines, embedded classes are wired consistently, the step-size controller
reads the order the sweeper class documents, the spread predictor copies u0.  Every statement about Taylor coefficients /
orders (of SDC after k sweeps, of each tableau, of each embedded pair) is numeric: NOT decided."""

import ast
import re

from ..cfg import walk_no_nested
from ..model import AnalysisError, ClassInfo
from ..norm import Normalizer, guards_nnf
from ..runner import rule
from .. import sweepers as sw

RK = 'pySDC/implementations/sweeper_classes/Runge_Kutta.py'
AD = 'pySDC/implementations/convergence_controller_classes/adaptivity.py'
EE = 'pySDC/implementations/convergence_controller_classes/estimate_embedded_error.py'


def _contribs(repo, rel, name):
    fn = repo.func(rel, name)
    N = Normalizer(fn)
    return fn, [c for c in N.contribs if c.target not in N.env.alias]


def _d(cs):
    return [c.describe() for c in cs]


@rule('C04', 'C04.R1', 'Runge-Kutta stage equations: stage m solves u_m = u0 + dt*sum_{j<m} a_mj f_j + dt*a_mm f(u_m) at its own node time (explicit stages take the sum), f is re-evaluated from the new stage', floor=10)
def r1(ctx, R):
    repo = ctx.repo
    for cn, start, term, copy in (
        ('RungeKutta', 'rhs = +P.dtype_u(L.u[0]) for i1=1..M', 'rhs += +L.dt·self.QI[i1, i2]·self.get_full_f(L.f[i2]) for i1=1..M, i2=1..i1-1', 'L.u[i1] = +rhs for i1=1..M if self.QI[i1, i1] == 0'),
        ('RungeKuttaIMEX', 'rhs = +L.u[0] for i1=1..M', 'rhs += +L.dt·L.f[i2].impl·self.QI[i1, i2] +L.dt·L.f[i2].expl·self.QE[i1, i2] for i1=1..M, i2=1..i1-1', 'L.u[i1] = +rhs[:] for i1=1..M if self.QI[i1, i1] == 0'),
    ):
        fn, cs = _contribs(repo, RK, f'{cn}.update_nodes')
        w = f'{RK}:{cn}.update_nodes'
        R.fn(w)
        got = _d(cs)
        R.check(start in got, f'{cn}.update_nodes :: every stage starts from u0 (a value, re-bound by the += below)', w, start, [g for g in got if g.startswith('rhs =')])
        R.check(term in got and len([g for g in got if g.startswith('rhs +=')]) == 1, f'{cn}.update_nodes :: known stages j = 1..m-1 enter with dt * a[m, j] * f_j (strictly lower triangle, row of THIS stage)', w, term, [g for g in got if g.startswith('rhs +=')])
        solve = 'L.u[i1] = +P.solve_system(rhs, L.dt * self.QI[i1, i1], L.u[i1 - 1], L.time + L.dt * self.coll.nodes[i1]) for i1=1..M if self.QI[i1, i1] != 0'
        R.check(solve in got, f'{cn}.update_nodes :: implicit stage: solve with factor dt * a[m, m] at the time of node m', w, solve, [g for g in got if g.startswith('L.u[i1] = +P.solve')])
        R.check(copy in got, f'{cn}.update_nodes :: explicit stage (a[m, m] == 0): the stage value is the accumulated sum', w, copy, [g for g in got if g.startswith('L.u[i1] = +rhs')])
        fe = [g for g in got if g.startswith('L.f[i1] = +P.eval_f(')]
        R.check(len(fe) == 1 and fe[0].startswith('L.f[i1] = +P.eval_f(L.u[i1], L.time + L.dt * self.coll.nodes[i1]) for i1=1..M if i1 - 1 < M - 1 or '), f'{cn}.update_nodes :: f_m = f(u_m, t_m) for every stage but possibly the last stiffly-accurate one', w, 'L.f[m] = P.eval_f(L.u[m], L.time + L.dt * nodes[m]) if m < M or not stiffly accurate or embedded', fe)
        direct = [ast.unparse(s.test) for s in walk_no_nested(fn) if isinstance(s, ast.Assert)]
        R.check('lvl.status.sweep <= 1' in direct, f'{cn}.update_nodes :: refuses a second sweep (a tableau is applied once per step)', w, 'assert lvl.status.sweep <= 1', direct)


@rule('C04', 'C04.R2', 'end points: primary = u0 + dt*sum b_j f_j (row 0 of the weights when embedded), embedded = u0 + dt*sum bhat_j f_j (row 1), last stage copied when stiffly accurate; IMEX sibling with the explicit weights on the explicit part', floor=10)
def r2(ctx, R):
    repo = ctx.repo
    for cn, SA, f_of, wts in (
        ('RungeKutta', 'self.coll.globally_stiffly_accurate', lambda row: f'+L.dt·L.f[1:][e1]·self.coll.weights{row}[e1]', lambda rows: 'zip(L.f[1:], ' + ', '.join(f'self.coll.weights{r}' for r in rows) + ')'),
        ('RungeKuttaIMEX', 'self.coll.globally_stiffly_accurate and self.coll_explicit.globally_stiffly_accurate', lambda row: f'+L.dt·L.f[1:][e1].impl·self.coll.weights{row}[e1] +L.dt·L.f[1:][e1].expl·self.coll_explicit.weights{row}[e1]',
         lambda rows: 'zip(L.f[1:], ' + ', '.join(f'self.coll.weights{r}' for r in rows) + ', ' + ', '.join(f'self.coll_explicit.weights{r}' for r in rows) + ')'),
    ):
        fn, cs = _contribs(repo, RK, f'{cn}.compute_end_point')
        w = f'{RK}:{cn}.compute_end_point'
        R.fn(w)
        by = {}
        for c in cs:
            by.setdefault((c.target, c.op), []).append(c)
        def has(target, op, rhs_pred, guard_atoms):
            for c in by.get((target, op), []):
                d = c.describe()
                body = d.split(' for e1 in ')[0].split(' if ')[0]
                if rhs_pred(body, d) and all(a in d for a in guard_atoms):
                    return True
            return False
        emb = 'self.is_embedded()'
        plain = 'type(self.coll) == ButcherTableau'
        ok1 = has('L.uend', '+=', lambda b, d: b == 'L.uend += ' + f_of('') and wts(['']) in d, [plain])
        R.check(ok1, f'{cn}.compute_end_point :: plain tableau: uend = u0 + dt * sum b_j f_j', w, 'L.uend += ' + f_of('') + ' over ' + wts(['']), _d(by.get(('L.uend', '+='), [])))
        ok2 = has('L.uend', '+=', lambda b, d: b == 'L.uend += ' + f_of('[0]') and wts(['[0]', '[1]']) in d, [emb])
        ok3 = has('self.u_secondary', '+=', lambda b, d: b == 'self.u_secondary += ' + f_of('[1]') and wts(['[0]', '[1]']) in d, [emb])
        R.check(ok2 and ok3, f'{cn}.compute_end_point :: embedded tableau: primary with weight row 0, secondary with weight row 1, paired with the same stage derivatives', w, ['L.uend += ' + f_of('[0]'), 'self.u_secondary += ' + f_of('[1]')], _d(by.get(('L.uend', '+='), []) + by.get(('self.u_secondary', '+='), [])))
        ok4 = has('self.u_secondary', '+=', lambda b, d: b == 'self.u_secondary += ' + f_of('[1]') and wts(['[1]']) in d, [emb, SA.split(' and ')[0]])
        R.check(ok4, f'{cn}.compute_end_point :: stiffly accurate + embedded: the secondary solution is still u0 + dt * sum bhat_j f_j', w, 'self.u_secondary += ' + f_of('[1]') + ' under the stiffly-accurate guard', _d(by.get(('self.u_secondary', '+='), [])))
        starts = [c.describe() for c in by.get(('L.uend', '='), []) + by.get(('self.u_secondary', '='), [])]
        bad_start = [s for s in starts if not re.search(r'= \+(P\.dtype_u\(L\.u\[(0|-1)\]\)|L\.u\[0\]\.copy\(\)|L\.u\[-1\])( |$)', s)]
        R.check(len(starts) >= 6 and not bad_start, f'{cn}.compute_end_point :: both sums start from u0 (or the last stage when stiffly accurate)', w, 'L.uend / u_secondary = dtype_u(u[0]) | dtype_u(u[-1])', bad_start or f'{len(starts)} start(s)')
        last = [c.describe() for c in by.get(('L.uend', '='), []) if 'L.u[-1]' in c.describe()]
        R.check(len(last) == 1 and guards_nnf([last[0].split(' if ', 1)[1]]) == guards_nnf([f'L.f[1] is not None and {SA}']), f'{cn}.compute_end_point :: the last stage is the end point exactly when the tableau is stiffly accurate', w, f'L.uend = u[-1] if {SA}', last)


@rule('C04', 'C04.R3', 'embedded wiring: a class asks the generator for embedded weights iff it declares the embedded tableau class, and then documents an update order; the controller takes that order and the estimate |primary - embedded|', floor=12)
def r3(ctx, R):
    repo = ctx.repo
    base = repo.cls(RK, 'RungeKutta')
    n_emb = 0
    for ci in repo.subclasses(base, strict=True):
        if not repo.is_library(ci):
            continue
        w = f'{ci.module.relpath}:{ci.name}'
        body = ci.node.body
        asg = {}
        for s in body:
            if isinstance(s, ast.Assign):
                for t in s.targets:
                    asg[ast.unparse(t)] = s.value
        own_emb = 'ButcherTableauClass' in asg and ast.unparse(asg['ButcherTableauClass']) == 'ButcherTableauEmbedded'
        gen = [v for k, v in asg.items() if 'genCoeffs' in ast.unparse(v)]
        asks = any('embedded=True' in ast.unparse(v) for v in gen)
        two_rows = any(k == 'weights' and re.search(r'np\.zeros\(\(2,', ast.unparse(v)) for k, v in asg.items())
        inherits_emb = any(isinstance(c, ClassInfo) and 'ButcherTableauClass' in c.class_assigns and ast.unparse(c.class_assigns['ButcherTableauClass']) == 'ButcherTableauEmbedded' for c in ci.mro)
        if not gen and not own_emb and not inherits_emb:
            continue
        R.fn(w)
        if gen:
            R.check(own_emb == (asks or two_rows), f'{ci.name} :: embedded coefficients requested <=> embedded tableau class declared', w, 'genCoeffs(embedded=True) (or a 2-row weights array) together with ButcherTableauClass = ButcherTableauEmbedded, or neither', {'declares embedded': own_emb, 'requests embedded': asks, 'builds 2 rows by hand': two_rows})
        resolved = None
        for c in ci.mro:
            if isinstance(c, ClassInfo) and 'ButcherTableauClass' in c.class_assigns:
                resolved = ast.unparse(c.class_assigns['ButcherTableauClass'])
                break
        if resolved == 'ButcherTableauEmbedded':
            n_emb += 1
            r = repo.resolve(ci, 'get_update_order')
            ok = r is not None and r[0] is not base
            val = None
            if ok:
                rets = [x.value for x in ast.walk(r[1]) if isinstance(x, ast.Return)]
                val = ast.unparse(rets[0]) if rets else None
                if len(rets) == 1 and not isinstance(rets[0], ast.Constant):
                    R.exc(f'{ci.name} :: update order is computed ({val[:60]}), not a literal', w, 'the VALUE of an order is numeric and not decided by this check (DESIGN.md 11.1); only the presence of a documented order is')
                    continue
                ok = len(rets) == 1 and isinstance(rets[0].value, int) and rets[0].value >= 2
            R.check(ok, f'{ci.name} :: embedded scheme documents its update order (the base class raises)', w, 'get_update_order returns an integer >= 2', val)
    if n_emb < 8:
        raise AnalysisError(f'C04.R3: only {n_emb} embedded Runge-Kutta classes found')
    fn = repo.func(RK, 'RungeKutta.get_update_order')
    R.check(any(isinstance(s, ast.Raise) and 'NotImplementedError' in ast.unparse(s) for s in ast.walk(fn)), 'RungeKutta.get_update_order :: schemes without a documented order cannot be used for step-size control (raises)', f'{RK}:RungeKutta.get_update_order', 'raise NotImplementedError', 'no raise')
    fn = repo.func(AD, 'AdaptivityRK.setup')
    src = [ast.unparse(s) for s in walk_no_nested(fn) if isinstance(s, (ast.Assign, ast.Return))]
    R.fn(f'{AD}:AdaptivityRK.setup')
    R.check("defaults['update_order'] = params.get('update_order', description['sweeper_class'].get_update_order())" in src, 'AdaptivityRK.setup :: the controller assumes the order the sweeper class documents (unless the user overrides it)', f'{AD}:AdaptivityRK.setup', "defaults['update_order'] = params.get('update_order', sweeper_class.get_update_order())", src)
    fn = repo.func(AD, 'AdaptivityRK.get_new_step_size')
    N = Normalizer(fn)
    R.fn(f'{AD}:AdaptivityRK.get_new_step_size')
    dn = [c.describe() for c in N.contribs if c.target.endswith('status.dt_new')]
    est = [ast.unparse(s.value) for s in walk_no_nested(fn) if isinstance(s, ast.Assign) and ast.unparse(s.targets[0]) == 'e_est']
    R.check(len(dn) == 1 and 'self.compute_optimal_step_size(self.params.beta, ' in dn[0] and dn[0].split(' if ')[0].endswith('self.params.e_tol, e_est, self.params.update_order)') and est == ['self.get_local_error_estimate(controller, S)'], 'AdaptivityRK.get_new_step_size :: step size from the embedded estimate and update_order', f'{AD}:AdaptivityRK.get_new_step_size', 'compute_optimal_step_size(beta, dt, e_tol, e_est, update_order)', dn)
    fn = repo.func(EE, 'EstimateEmbeddedError.estimate_embedded_error_serial')
    R.fn(f'{EE}:EstimateEmbeddedError.estimate_embedded_error_serial')
    arm = [s for s in ast.walk(fn) if isinstance(s, ast.If) and ast.unparse(s.test) in ('self.params.sweeper_type == "RK"', "self.params.sweeper_type == 'RK'")]
    ok = len(arm) == 1
    rets = []
    if ok:
        rets = [ast.unparse(x.value) for x in ast.walk(ast.Module(body=arm[0].body, type_ignores=[])) if isinstance(x, ast.Return)]
        first = ast.unparse(arm[0].body[0])
        ok = first == 'L.sweep.compute_end_point()' and sorted(rets) == sorted(['abs(L.uend - L.sweep.u_secondary) / abs(L.uend)', 'abs(L.uend - L.sweep.u_secondary)'])
    R.check(ok, 'estimate_embedded_error_serial :: RK: end points computed first, estimate = |primary - embedded| (optionally relative to the primary)', f'{EE}:EstimateEmbeddedError.estimate_embedded_error_serial', 'compute_end_point(); abs(uend - u_secondary) [/ abs(uend)]', rets)


@rule('C04', 'C04.R4', 'order-0 start: the spread predictor puts a copy of u0 and f(u0-copy, t_m) on every node; unknown initial guesses raise; Runge-Kutta sweepers start from zero stages and disable the residual tolerance', floor=8)
def r4(ctx, R):
    repo = ctx.repo
    rel = 'pySDC/core/sweeper.py'
    fn = repo.func(rel, 'Sweeper.predict')
    w = f'{rel}:Sweeper.predict'
    R.fn(w)
    N = Normalizer(fn)
    got = [c.describe() for c in N.contribs]
    u = [g for g in got if g.startswith('L.u[i1] = +P.dtype_u(L.u[0])') and "== 'spread'" in g]
    f = [g for g in got if g.startswith('L.f[i1] = +P.eval_f(L.u[i1], L.time + L.dt * self.coll.nodes[i1 - 1])') and "== 'spread'" in g]
    R.check(len(u) == 1 and len(f) == 1 and 'for i1=1..M' in u[0], 'Sweeper.predict :: spread: u_m = copy of u0, f_m = f(u_m, t_m) for every node', w, "L.u[m] = P.dtype_u(L.u[0]); L.f[m] = P.eval_f(L.u[m], t_m) if initial_guess == 'spread'", [g for g in got if 'spread' in g][:4])
    raises = [ast.unparse(s)[:80] for s in ast.walk(fn) if isinstance(s, ast.Raise)]
    R.check(any('ParameterError' in r for r in raises), 'Sweeper.predict :: an unknown initial_guess raises', w, 'else: raise ParameterError', raises)
    # every other initial guess fills the SAME slots m = 1..M with a fresh object of its own
    want_arms = {
        'copy': ('L.u[i1] = +P.dtype_u(L.u[0]) for i1=1..M', 'L.f[i1] = +P.dtype_f(L.f[0]) for i1=1..M'),
        'zero': ('L.u[i1] = +P.dtype_u(init=P.init, val=0.0) for i1=1..M', 'L.f[i1] = +P.dtype_f(init=P.init, val=0.0) for i1=1..M'),
        'random': ('L.u[i1] = +P.dtype_u(init=P.init, val=self.rng.rand(1)[0]) for i1=1..M', 'L.f[i1] = +P.dtype_f(init=P.init, val=self.rng.rand(1)[0]) for i1=1..M'),
    }
    for guess, lines in want_arms.items():
        arm = [g.split(' if ')[0] for g in got if g.endswith(f"self.params.initial_guess == '{guess}'")]
        R.check(sorted(arm) == sorted(lines), f"Sweeper.predict :: initial guess '{guess}' fills u[m] and f[m] for every node m = 1..M with new objects", w, list(lines), arm)
    f0 = [g for g in got if g.startswith('L.f[0] = ')]
    R.check(f0 == ['L.f[0] = +P.eval_f(L.u[0], L.time)'], 'Sweeper.predict :: f(u0, t0) is evaluated for every initial guess', w, 'L.f[0] = P.eval_f(L.u[0], L.time)', f0)
    fn = repo.func(RK, 'RungeKutta.__init__')
    src = [ast.unparse(s) for s in walk_no_nested(fn) if isinstance(s, ast.Assign)]
    R.fn(f'{RK}:RungeKutta.__init__')
    R.check("params['initial_guess'] = 'zero'" in src and 'self.QI = self.coll.Qmat' in src and "params['num_nodes'] = self.coll.num_nodes" in src, 'RungeKutta.__init__ :: stages start from zero; the stage matrix is the tableau matrix; one node per stage', f'{RK}:RungeKutta.__init__', ["params['initial_guess'] = 'zero'", 'self.QI = self.coll.Qmat', "params['num_nodes'] = self.coll.num_nodes"], src)
    ci = repo.cls(RK, 'RungeKutta')
    setter = [f for f in ci.node.body if isinstance(f, ast.FunctionDef) and f.name == 'level' and any('setter' in ast.unparse(d) for d in f.decorator_list)]
    ok = len(setter) == 1 and re.search(r'if lvl\.params\.restol > 0:\n\s+lvl\.params\.restol = -1', ast.unparse(setter[0])) is not None
    R.check(ok, 'RungeKutta.level (setter) :: a positive residual tolerance is switched off (a tableau step is not iterated)', f'{RK}:RungeKutta.level', 'if restol > 0: restol = -1', 'not found' if not ok else 'ok')


@rule('C04', 'C04.R5', 'each sweep can raise the order by one only with a (strictly) lower triangular QDelta: the explicit builder asserts a zero diagonal, the implicit one a zero upper triangle, on every path to its return', floor=2)
def r5(ctx, R):
    from ..cfg import FuncCFG
    repo = ctx.repo
    rel = 'pySDC/core/sweeper.py'
    for name, tri_k in (('get_Qdelta_implicit', 1), ('get_Qdelta_explicit', 0)):
        fn = repo.func(rel, 'Sweeper.' + name)
        w = f'{rel}:Sweeper.{name}'
        R.fn(w)
        cfg = FuncCFG(fn)
        rets = [n for n, s in cfg.stmt_of.items() if isinstance(s, ast.Return)]
        if not rets:
            raise AnalysisError(f'{w}: no return')
        mat = ast.unparse(cfg.stmt_of[rets[0]].value)
        asserts = [n for n in cfg.stmt_of if any(ast.unparse(c.func) == 'np.testing.assert_array_equal' and f'np.triu({mat}, k={tri_k})' in ast.unparse(c) for c in cfg.calls_at(n))]
        anyk = [ast.unparse(c)[:70] for n in cfg.stmt_of for c in cfg.calls_at(n) if ast.unparse(c.func) == 'np.testing.assert_array_equal']
        ok = bool(asserts) and all(any(cfg.dominates(a, r) for a in asserts) for r in rets)
        R.check(ok, f'Sweeper.{name} :: assert_array_equal(np.triu({mat}, k={tri_k}), 0) dominates every return of the matrix', w, f'triu(.., k={tri_k}) == 0 asserted ({"strictly lower: the explicit term of node m may not contain f(u_m)" if tri_k == 0 else "lower: forward substitution"})', anyk)


@rule('C04', 'C04.R6', 'each SDC sweep can raise the order by one only if it IS the preconditioned Picard iteration and the end point is the collocation update / copy: sweep, integrate and end-point signatures of every QDelta sweeper (shared with C01.R6 / C02)', floor=20)
def r6(ctx, R):
    from . import c01
    c01.r6(ctx, R)


@rule('C04', 'C04.R7', 'the converged iteration is the collocation method only if QDelta cancels at the fixed point: subtracted and added-back dt*QD*f terms agree (shared with C01.R1)', floor=10)
def r7(ctx, R):
    from . import c01
    c01.r1(ctx, R)


@rule('C04', 'C04.R8', 'embedded tableaux carry TWO rows of weights: every method of ButcherTableau that reads self.weights is overridden by ButcherTableauEmbedded and reads one row (self.weights[0] for the primary scheme) - an inherited reader would broadcast the last stage row against both rows and, e.g., never find the scheme stiffly accurate', floor=1)
def r8(ctx, R):
    repo = ctx.repo
    rel = 'pySDC/implementations/sweeper_classes/Runge_Kutta.py'
    base, emb = repo.cls(rel, 'ButcherTableau'), repo.cls(rel, 'ButcherTableauEmbedded')

    def weight_loads(fn):
        whole, rows = [], []
        parents = {}
        for p in ast.walk(fn):
            for c in ast.iter_child_nodes(p):
                parents[id(c)] = p
        for x in ast.walk(fn):
            if isinstance(x, ast.Attribute) and x.attr == 'weights' and isinstance(x.value, ast.Name) and x.value.id == 'self' and isinstance(x.ctx, ast.Load):
                p = parents.get(id(x))
                if isinstance(p, ast.Subscript) and p.value is x and isinstance(p.slice, ast.Constant) and isinstance(p.slice.value, int):
                    rows.append(p.slice.value)
                else:
                    whole.append(x.lineno)
        return whole, rows

    n = 0
    for name, fn in base.methods.items():
        if name == '__init__':
            continue
        whole, rows = weight_loads(fn)
        if not whole and not rows:
            continue
        n += 1
        w = f'{rel}:ButcherTableauEmbedded.{name}'
        R.fn(w)
        if name not in emb.methods:
            R.bad(f'ButcherTableauEmbedded.{name} :: overrides the base-class reader of self.weights', w, f'an override that reads self.weights[0]', f'inherited from ButcherTableau (reads the whole 2 x M array at line {whole[:1]})')
            continue
        ew, er = weight_loads(emb.methods[name])
        R.check(not ew and er, f'ButcherTableauEmbedded.{name} :: reads one row of the weights', w, 'self.weights[0] (primary) / self.weights[1] (embedded)', f'whole-array reads at lines {ew}' if ew else 'no read')
    if not n:
        raise AnalysisError('C04.R8: ButcherTableau.globally_stiffly_accurate (the confirmed reader of self.weights) not found')


@rule('C04', 'C04.R9', "the amplification matrices the library derives orders and stability from are those of the real sweep: matrix form of the IMEX sweep (shared with C02.R18)", floor=2)
def r9_shared(ctx, R):
    from . import c02
    c02.r18(ctx, R)
