"""debug helper: print the normalised contributions of a function"""
import sys
sys.path.insert(0, '/verif')
from sa.model import Repo
from sa.norm import Normalizer

def main():
    root = '/repo'
    r = Repo(root)
    rel, names = sys.argv[1], sys.argv[2:]
    for nm in names:
        fn = r.func(rel, nm)
        N = Normalizer(fn)
        print('==', rel, nm)
        for c in N.contribs:
            if c.target in N.env.alias: continue
            print('  ', c.lineno, c.describe())
if __name__ == '__main__':
    main()
